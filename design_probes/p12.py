import torch, numpy, warnings, copy
import torch.nn.functional as F
from tangermeme.deep_lift_shap import deep_lift_shap
from tangermeme.utils import random_one_hot
torch.manual_seed(1)
S = torch.nn.Sequential
# ---- independent rescale oracle
def act_deriv(layer, x):
    x = x.clone().requires_grad_(True)
    y = layer(x)
    return torch.autograd.grad(y.sum(), x)[0]
def oracle(model, x, r, target):
    layers = list(model)
    xs, rs = [x], [r]
    with torch.no_grad():
        for l in layers:
            xs.append(l(xs[-1])); rs.append(l(rs[-1]))
    m = torch.zeros_like(xs[-1]); m[:, target] = 1.0
    band = 0
    for l, xi, ri, xo, ro in zip(reversed(layers), reversed(xs[:-1]), reversed(rs[:-1]), reversed(xs[1:]), reversed(rs[1:])):
        if isinstance(l, (torch.nn.Conv1d, torch.nn.Linear, torch.nn.AvgPool1d, torch.nn.Flatten)):
            xi_ = xi.clone().requires_grad_(True)
            with torch.enable_grad():
                yo = l(xi_)
            m = torch.autograd.grad(yo, xi_, grad_outputs=m)[0]
        else:
            din = xi - ri; dout = xo - ro
            small = din.abs() < 1e-6
            band += ((din.abs() > 1e-7) & (din.abs() < 1e-5)).sum().item()
            ratio = dout / torch.where(small, torch.ones_like(din), din)
            m = m * torch.where(small, act_deriv(l, xi), ratio)
    return m, band
acts = [torch.nn.ReLU, torch.nn.GELU, torch.nn.Tanh, torch.nn.Softplus, torch.nn.ELU, torch.nn.SiLU, torch.nn.PReLU, torch.nn.LogSigmoid]
worst = 0
for A in acts:
    model = S(torch.nn.Conv1d(4,6,3,padding=1), A(), torch.nn.AvgPool1d(2), torch.nn.Conv1d(6,5,3,dilation=2), A(), torch.nn.Flatten(), torch.nn.Linear(5*6, 4), A(), torch.nn.Linear(4,3)).double()
    for p in model.parameters(): p.data.mul_(3.0)
    pristine = copy.deepcopy(model)
    n, ns, L = 3, 4, 20
    X = random_one_hot((n,4,L), random_state=1).double()
    refs = random_one_hot((n*ns,4,L), random_state=2).double().reshape(n,ns,4,L)
    refs[:, :, :, :8] = X[:, None, :, :8]      # shared prefix -> exact zero deltas
    raw = deep_lift_shap(model, X, references=refs, device='cpu', raw_outputs=True, target=1)
    hyp = deep_lift_shap(model, X, references=refs, device='cpu', hypothetical=True, target=1)
    err = 0; bands=0; zero=0
    hyp_ref = torch.zeros_like(hyp)
    for i in range(n):
        for j in range(ns):
            m, b = oracle(pristine, X[i:i+1], refs[i, j:j+1], 1)
            err = max(err, (m[0]-raw[i,j]).abs().max().item()); bands += b
            for k in range(4):
                e = torch.zeros(4, L, dtype=torch.float64); e[k] = 1
                hyp_ref[i, k] += ((e - refs[i,j]) * m[0]).sum(0) / ns
    print(A.__name__, "raw mult err", err, "hyp err", (hyp-hyp_ref).abs().max().item(), "band elems", bands, "scale", raw.abs().max().item())
# ---- maxpool repair prototype via additional_nonlinear_ops
def _maxpool_fixed(module, grad_input, grad_output):
    with torch.no_grad():
        delta_in_ = torch.sub(*module.input.chunk(2)); delta_in = torch.cat([delta_in_, delta_in_])
        output, output_ref = module.output.chunk(2)
        xmax = torch.max(output, output_ref)
        delta_out = torch.cat([xmax - output_ref, output - xmax])
        _, indices = F.max_pool1d(module.input, module.kernel_size, module.stride, module.padding, module.dilation, module.ceil_mode, True)
        unpool_ = torch.zeros_like(module.input).scatter_add_(2, indices, grad_output[0]*delta_out)
        a, b = torch.chunk(unpool_, 2)
    u = a + b; u = torch.cat([u, u])
    idxs = torch.abs(delta_in) < 1e-7
    return (torch.where(idxs, grad_input[0], u / delta_in),)
for desc, mp in [("k2", torch.nn.MaxPool1d(2)), ("k3s1", torch.nn.MaxPool1d(3, stride=1)), ("k3s2p1", torch.nn.MaxPool1d(3, stride=2, padding=1)), ("k2dil2", torch.nn.MaxPool1d(2, stride=1, dilation=2)), ("k3ceil", torch.nn.MaxPool1d(3, ceil_mode=True))]:
    model = S(torch.nn.Conv1d(4,5,3), torch.nn.ReLU(), mp, torch.nn.Conv1d(5,4,2), torch.nn.Tanh(), torch.nn.Flatten(), torch.nn.LazyLinear(3)).double()
    X = random_one_hot((3,4,20), random_state=1).double()
    refs = random_one_hot((12,4,20), random_state=2).double().reshape(3,4,4,20)
    model(X)
    for p in model.parameters(): p.data.mul_(3.0)
    with warnings.catch_warnings(record=True) as w:
        warnings.simplefilter("always")
        a = deep_lift_shap(model, X, references=refs, device='cpu', additional_nonlinear_ops={torch.nn.MaxPool1d: _maxpool_fixed})
        with torch.no_grad():
            d = model(X)[:,0] - model(refs.reshape(-1,4,20))[:,0].reshape(3,4).mean(1)
        try:
            a0 = deep_lift_shap(model, X, references=refs, device='cpu')
            e0 = (a0.sum((1,2))-d).abs().max().item()
        except Exception as e:
            e0 = type(e).__name__
    print("maxpool", desc, "fixed gap", (a.sum((1,2))-d).abs().max().item(), "orig gap", e0, "delta scale", d.abs().max().item())

import torch, numpy, math, time, sys
sys.argv = [sys.argv[0]]
exec(open('p10.py').read().split("Qs = [rp(")[0])
from tangermeme.tools.tomtom import tomtom
a = numpy.array([0.5,0.5,0,0.]); b = numpy.array([0,0,0.5,0.5])
def mot(pattern): return numpy.stack([a if ch=='a' else b for ch in pattern], axis=1)
Qs = [mot("aaab"), mot("ab")]
Ts = [mot("aaaa"), mot("aaab"), mot("aaa"), mot("aabaa"), mot("aaaaaa"), mot("ba")]
ref = reference(Qs, Ts, n_bins=100, rc=False)
r = tomtom(Qs, Ts, n_jobs=1, n_target_bins=None, reverse_complement=False).numpy()
print("scores equal", (r[1]==ref[:,:,1]).all())
print("p impl", r[0].round(6)); print("p ref ", ref[:,:,0].round(6))
# inspect f0
Q = numpy.concatenate(Qs,axis=-1); T = numpy.concatenate(Ts, axis=-1); ncol=T.shape[-1]
nq=4; gamma=numpy.empty((ncol,nq)); gi=numpy.empty((ncol,nq),dtype='int8'); f=numpy.empty((nq,101)); med=numpy.empty(nq); mb=numpy.empty((1000,2))
off=_integer_distances_and_histogram(Q,T,gamma,gi,f,med,mb,(Q**2).sum(0),(T**2).sum(0),numpy.ones(ncol,dtype='int64'),0,nq,100)
print("offset",off,"f[:,0]",f[:,0], "gamma uniq", numpy.unique(gamma.round(6)), "gi uniq", numpy.unique(gi))

"""C06 - attributions do not depend on batch size, co-batched examples or call order."""
import warnings

import torch
from hypothesis import strategies as st

from pbt.harness import Sub, Violation, Rejected, SutRaised, require, sut
from pbt import nets
from checks.c04 import inputs

from tangermeme.deep_lift_shap import deep_lift_shap
from tangermeme.ersatz import dinucleotide_shuffle, shuffle

PROPERTY = "C06"
LEVEL = "exploration"
RULE = ("cases = (C04 architecture incl. max-pooling, optionally wrapped to take a per-example extra argument; 1-5 one-hot examples; "
        "references = explicit tensor, or dinucleotide_shuffle / shuffle with an integer random_state; n_shuffles 1-6; output mode "
        "processed / raw / hypothetical; a list of batch sizes from 1..n*ns+1; a subset and a permutation of the example list) drawn "
        "by Hypothesis. Oracle (metamorphic): against the call that puts everything in one batch, every other batch size, the "
        "subset call, the permuted call and the call without return_references must give the same attributions per example (allclose rtol 1e-9 / atol 1e-12 - last-bit "
        "differences between batchings are legitimate) and exactly the same references; a repeated identical call must be "
        "bit-identical. Non-trivial: n >= 2 and some batch boundary falls strictly inside an example's block of references.")
ASSUMPTIONS = ["references=function is only used with an integer random_state (with None the shuffles are not reproducible by design)",
               "float64 throughout"]


class ArgNet(torch.nn.Module):
    def __init__(self, net, T, seed):
        super().__init__()
        self.net = net
        g = torch.Generator().manual_seed(seed + 5)
        self.Wa = torch.nn.Parameter(torch.randn(2, T, generator=g, dtype=torch.float64))

    def forward(self, X, a):
        # the extra argument scales the output (so it changes the gradient, hence the attributions, of its own example) and shifts it
        a = a.to(torch.float64)
        return self.net(X) * (1.0 + 0.25 * torch.tanh(a[:, :1])) + torch.tanh(a @ self.Wa)


def maxpool_near_tie(ref_model, seqs, rtol=1e-9):
    """True when, for some of the given sequences, some window of some MaxPool1d layer holds two positions whose values agree to
    within rtol.  There the DeepLIFT max-pool rule is discontinuous (all of the window's contribution goes to whichever position
    is the arg max), and torch's own convolution is not bit-for-bit batch-invariant - the same window can differ in the last bit
    between a batch of 2 and a batch of 4 - so two batchings may legitimately break the tie differently."""
    found = []

    def hook(module, inp, out):
        v = inp[0].detach().double()
        k, s_, p_, d_ = (module.kernel_size, module.stride or module.kernel_size, module.padding, module.dilation)
        k, s_, p_, d_ = [a[0] if isinstance(a, (tuple, list)) else a for a in (k, s_, p_, d_)]
        Lin = v.shape[-1]
        pos = torch.arange(out.shape[-1])[:, None] * s_ - p_ + torch.arange(k)[None, :] * d_          # (n_out, k)
        ok = (pos >= 0) & (pos < Lin)
        padded = torch.cat([v, torch.full(v.shape[:-1] + (1,), float("-inf"), dtype=v.dtype)], dim=-1)
        win = padded[..., torch.where(ok, pos, torch.full_like(pos, Lin))]                              # (..., n_out, k)
        if win.shape[-1] < 2:
            return
        top = win.topk(2, dim=-1).values
        gap = top[..., 0] - top[..., 1]
        if bool((gap <= rtol * (1 + top[..., 0].abs())).any()):
            found.append(True)

    handles = [m.register_forward_hook(hook) for m in ref_model.modules() if isinstance(m, torch.nn.MaxPool1d)]
    try:
        with torch.no_grad():
            ref_model.eval()
            ref_model(seqs.double())
    finally:
        for h in handles:
            h.remove()
    return bool(found)


def invariance_case(case, ctx):
    arch = case["arch"]
    model = nets.build(arch, case["seed"])
    tie_model = nets.pristine(model)       # judged separately from the model handed to the function
    X = nets.one_hot(case["X"])
    n, L = X.shape[0], X.shape[2]
    args = None
    if case.get("argvals") is not None:
        model = ArgNet(model, arch["T"], case["seed"])
        args = (torch.tensor(case["argvals"], dtype=torch.float64),)
    if case.get("train_mode"):
        model.train()          # handed over as constructed; the function must evaluate it in eval mode for every batch composition
        ctx.label("handed_over_in_train_mode")
    mode = case["mode"]
    base = dict(target=case["target"], device="cpu", raw_outputs=(mode == "raw"), hypothetical=(mode == "hyp"), return_references=True)
    if case["refs"]["mode"] == "tensor":
        R = nets.one_hot(case["refs"]["idx"])
        ns = R.shape[1]
        refkw = lambda idx: dict(references=R[idx])
    else:
        fn = dinucleotide_shuffle if case["refs"]["mode"] == "dinuc" else shuffle
        ns = case["refs"]["ns"]
        import numpy as _np
        rs_val = {"int": int, "np_int64": _np.int64, "np_int32": _np.int32}[case.get("seed_type", "int")](case["refs"]["rs"])
        refkw = lambda idx: dict(references=fn, n_shuffles=ns, random_state=rs_val)

    def call(idx, bs):
        a = None if args is None else (args[0][idx],)
        with warnings.catch_warnings():
            warnings.simplefilter("ignore")
            return deep_lift_shap(model, X[idx], args=a, batch_size=bs, **base, **refkw(idx))

    allidx = list(range(n))
    try:
        A0, R0 = call(allidx, n * ns + 1)
    except Exception as e:  # noqa: BLE001
        if case["refs"]["mode"] != "tensor":
            try:
                fn(X, n=1, random_state=case["refs"]["rs"])
            except Exception:
                raise Rejected() from e
        raise SutRaised(e) from e
    desc = "arch=%s n=%d ns=%d mode=%s refs=%s" % ([(l["t"], l.get("name") or l.get("k")) for l in arch["layers"]], n, ns, mode, case["refs"]["mode"])

    def same(Ab, Rb, rows, what):
        require(torch.equal(Rb, R0[rows]), "references-differ-" + what, lambda: "%s: %s" % (desc, what))
        require(tuple(Ab.shape) == tuple(A0[rows].shape), "shape-differs-" + what, lambda: "%s vs %s" % (tuple(Ab.shape), tuple(A0[rows].shape)))
        if not torch.allclose(Ab.double(), A0[rows].double(), rtol=1e-9, atol=1e-12):
            d = (Ab - A0[rows]).abs()
            per = d.reshape(len(rows), -1).max(dim=1).values
            ex = int(per.argmax())
            scale = A0[rows].double().abs().reshape(len(rows), -1).max(dim=1).values
            off = [i for i in range(len(rows)) if per[i] > 1e-12 + 1e-9 * scale[i]] or [ex]
            if all(maxpool_near_tie(tie_model, torch.cat([X[rows[i]][None], R0[rows[i]].double()])) for i in off):
                # not decidable: every differing example has a max-pooling window with an exact (or last-bit) tie - see DESIGN 10
                ctx.label("maxpool_tie_ill_conditioned")
                return
            raise Violation("attributions-differ-" + what, "%s: %s: example %d differs by %.3g" % (desc, what, rows[ex], d.max().item()))

    if case.get("override_between"):
        # an intervening call that overrides built-in rules (documented use of additional_nonlinear_ops) must not change later calls
        # the overriding rule scales the plain gradient by a case-specific factor: if overrides leak across calls (and so across
        # cases of this process) the judged calls before and after this one still see *different* leaked rules
        scale = float(case.get("override_scale", 2.0))
        plain = lambda module, grad_input, grad_output: tuple(None if g_ is None else g_ * scale for g_ in grad_input)
        with warnings.catch_warnings():
            warnings.simplefilter("ignore")
            try:
                deep_lift_shap(model, X, args=args, batch_size=3, additional_nonlinear_ops={getattr(torch.nn, a): plain for a in nets.ACTS + ["MaxPool1d"]},
                               **{k_: v_ for k_, v_ in base.items() if k_ != "return_references"}, **refkw(allidx))
            except Exception:  # noqa: BLE001
                pass
        ctx.label("override_call_in_between")
    A1, R1 = sut(call, allidx, n * ns + 1)
    require(torch.equal(A1, A0) and torch.equal(R1, R0), "repeated-call-not-identical", desc)
    # return_references only adds the references to the result: the attributions are those of the same call without it
    with warnings.catch_warnings():
        warnings.simplefilter("ignore")
        A2 = sut(deep_lift_shap, model, X, args=args, batch_size=n * ns + 1, **{k_: v_ for k_, v_ in base.items() if k_ != "return_references"}, **refkw(allidx))
    require(torch.is_tensor(A2) and tuple(A2.shape) == tuple(A0.shape) and torch.equal(A2, A0), "return_references-changes-attributions", desc)
    inside = False
    for b in case["batch_sizes"]:
        b = max(1, min(b, n * ns + 1))
        Ab, Rb = sut(call, allidx, b)
        same(Ab, Rb, allidx, "batch_size=%d" % b)
        if b % ns != 0 and b < n * ns:
            inside = True
    sub = case["subset"]
    As, Rs = sut(call, sub, case["batch_sizes"][0])
    same(As, Rs, sub, "subset")
    perm = case["perm"]
    Ap, Rp = sut(call, perm, case["batch_sizes"][-1])
    same(Ap, Rp, perm, "permutation")
    ctx.nt(n >= 2 and inside)
    ctx.label("mode_" + mode, "refs_" + case["refs"]["mode"])
    if args is not None:
        ctx.label("with_args")
    if any(l["t"] == "maxpool" for l in arch["layers"]):
        ctx.label("maxpool")


@st.composite
def strategy(draw):
    L = draw(st.integers(8, 30))
    arch = draw(nets.arch_strategy(L))
    X, refs, n, ns = draw(inputs(L, modes=("tensor", "dinuc", "shuffle")))
    refs.pop("unseeded", None)          # without a seed the shuffles are not reproducible by design
    extra = draw(st.integers(1, 2))
    while n < 2 and extra:
        X = X + [[draw(st.integers(0, 3)) for _ in range(L)]]
        if refs["mode"] == "tensor":
            refs["idx"].append([[draw(st.integers(0, 3)) for _ in range(L)] for _ in range(ns)])
        n += 1
        extra -= 1
    total = n * ns
    bs = sorted(set([draw(st.integers(1, total + 1)) for _ in range(3)] + [1 if draw(st.booleans()) else max(1, ns - 1), min(total, ns + 1)]))
    subset = sorted(draw(st.sets(st.integers(0, n - 1), min_size=1, max_size=n)))
    case = {"arch": arch, "seed": draw(st.integers(0, 10 ** 6)), "X": X, "refs": refs, "target": draw(st.integers(0, arch["T"] - 1)),
            "mode": draw(st.sampled_from(["processed", "raw", "hyp"])), "batch_sizes": bs, "subset": subset,
            "perm": list(draw(st.permutations(list(range(n))))), "override_between": draw(st.integers(0, 3)) == 0, "train_mode": draw(st.booleans()),
            "seed_type": draw(st.sampled_from(["int", "int", "np_int64", "np_int32"])),
            "override_scale": draw(st.sampled_from([0.25, 0.5, 1.5, 2.0, 3.0, 5.0, 7.0]))}
    if draw(st.integers(0, 2)) == 0:
        case["argvals"] = [[draw(st.integers(-3, 3)), 10 * i + draw(st.integers(0, 3))] for i in range(n)]
    return case


def subchecks(tier):
    return [Sub("invariance", invariance_case, strategy=strategy, n_quick=1200, n_thorough=30000, shards_quick=4)]

import torch, numpy, math, time, sys
sys.argv = [sys.argv[0]]
exec(open('p10.py').read().split("Qs = [rp(")[0])   # reuse reference()
from tangermeme.tools.tomtom import tomtom
rs = numpy.random.RandomState(3)
def onehotish(w, noise=0.0):
    m = numpy.zeros((4,w)); m[rs.randint(0,4,size=w), numpy.arange(w)] = 1
    return m
# near-identical target columns: many copies of same column as query, few far ones
q = onehotish(6)
Ts = [q.copy() for _ in range(6)] + [onehotish(6) for _ in range(2)]
for nb in (100, 120, 150, 200):
    try:
        ref = reference([q], Ts, n_bins=nb, rc=False)
        r = tomtom([q], Ts, n_jobs=1, n_target_bins=None, reverse_complement=False, n_score_bins=nb, n_cache=max(100, nb+50)).numpy()
        print(nb, "scores impl", r[1][0].tolist(), "ref", ref[0,:,1].tolist())
    except AssertionError as e:
        print(nb, "reference assertion (range) failed:", e)
Q, T = q, numpy.concatenate(Ts, axis=-1)
Qn=(Q**2).sum(0); Tn=(T**2).sum(0); ncol=T.shape[-1]; nq=6
for nb in (100,200,250):
    gamma = numpy.empty((ncol, nq)); gi = numpy.empty((ncol, nq), dtype='int8'); gi16 = numpy.empty((ncol, nq), dtype='int16')
    f = numpy.empty((nq, nb+1)); med = numpy.empty(nq); mb = numpy.empty((1000,2))
    off = _integer_distances_and_histogram(Q, T, gamma, gi, f, med, mb, Qn, Tn, numpy.ones(ncol, dtype='int64'), 0, nq, nb)
    off2 = _integer_distances_and_histogram(Q, T, gamma, gi16, f, med, mb, Qn, Tn, numpy.ones(ncol, dtype='int64'), 0, nq, nb)
    print(nb, "offset", off, "gamma range", gamma.min(), gamma.max(), "medians", med[:3], "gi16 range", gi16.min(), gi16.max(), "int8 mismatches", (gi.astype('int16')!=gi16).sum())

import torch, numpy, warnings
from tangermeme.deep_lift_shap import deep_lift_shap
from tangermeme.utils import random_one_hot
torch.manual_seed(0)
def run(model, L=20, n=3, ns=4, **kw):
    model = model.double()
    X = random_one_hot((n,4,L), random_state=1).double()
    refs = random_one_hot((n*ns,4,L), random_state=2).double().reshape(n,ns,4,L)
    with warnings.catch_warnings(record=True) as w:
        warnings.simplefilter("always")
        a = deep_lift_shap(model, X, references=refs, device='cpu', **kw)
    with torch.no_grad():
        yx = model(X)[:,0]; yr = model(refs.reshape(-1,4,L))[:,0].reshape(n,ns).mean(1)
    return (a.sum(dim=(1,2)) - (yx-yr)).abs().max().item(), len(w)
S = torch.nn.Sequential
acts = dict(ReLU=torch.nn.ReLU, ReLU6=torch.nn.ReLU6, RReLU=torch.nn.RReLU, SELU=torch.nn.SELU, CELU=torch.nn.CELU, GELU=torch.nn.GELU, SiLU=torch.nn.SiLU, Mish=torch.nn.Mish, ELU=torch.nn.ELU, LeakyReLU=torch.nn.LeakyReLU, Sigmoid=torch.nn.Sigmoid, Tanh=torch.nn.Tanh, Softplus=torch.nn.Softplus, Softshrink=torch.nn.Softshrink, LogSigmoid=torch.nn.LogSigmoid, PReLU=torch.nn.PReLU)
for name, A in acts.items():
    m = S(torch.nn.Conv1d(4,5,3), A(), torch.nn.Conv1d(5,4,3,dilation=2), A(), torch.nn.Flatten(), torch.nn.Linear(4*14, 3))
    print(name, run(m))
for desc, mp in [("k2", torch.nn.MaxPool1d(2)), ("k3s1", torch.nn.MaxPool1d(3, stride=1)), ("k3s2", torch.nn.MaxPool1d(3, stride=2)), ("k2pad1", torch.nn.MaxPool1d(2, padding=1)), ("k2dil2", torch.nn.MaxPool1d(2, stride=2, dilation=2)), ("k3ceil", torch.nn.MaxPool1d(3, ceil_mode=True))]:
    m = S(torch.nn.Conv1d(4,5,3), torch.nn.ReLU(), mp, torch.nn.Flatten(), torch.nn.LazyLinear(3))
    try:
        print("maxpool", desc, run(m))
    except Exception as e:
        print("maxpool", desc, type(e).__name__, str(e)[:100])
# batch size invariance bitwise?
m = S(torch.nn.Conv1d(4,5,3), torch.nn.Tanh(), torch.nn.MaxPool1d(2), torch.nn.Conv1d(5,4,3), torch.nn.GELU(), torch.nn.Flatten(), torch.nn.LazyLinear(3)).double()
X = random_one_hot((5,4,30), random_state=1).double()
outs = [deep_lift_shap(m, X, device='cpu', n_shuffles=4, batch_size=b, random_state=3) for b in (1,2,3,4,5,7,8,20,21,32)]
print("bitwise equal across batch sizes:", [torch.equal(outs[0], o) for o in outs], max((outs[0]-o).abs().max().item() for o in outs))
mf = m.float()
outs = [deep_lift_shap(mf, X.float(), device='cpu', n_shuffles=4, batch_size=b, random_state=3) for b in (1,2,3,4,5,7,8,20,21,32)]
print("float32:", [torch.equal(outs[0], o) for o in outs], max((outs[0]-o).abs().max().item() for o in outs))

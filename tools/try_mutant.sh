#!/bin/bash
# usage: tools/try_mutant.sh <patch.diff> <ID> [extra run_check args]  -- applies a patch to /repo, runs the quick check, reverts.
set -u
patch=$1; id=$2; shift 2
cd /repo || exit 2
if ! git diff --quiet; then echo "/repo has uncommitted changes; refusing"; exit 2; fi
git apply "$patch" || { echo "patch does not apply"; exit 2; }
cd /verif
/venv/bin/python run_check.py "$id" "$@" 2>&1 | grep -E "^(VIOLATION|violation:|HARNESS|KNOWN|C[0-9]+ tier)" | cut -c1-400
rc=${PIPESTATUS[0]}
git -C /repo checkout -- .
echo "exit=$rc"

"""Exact-arithmetic models used as oracles' subjects.

All parameters are float64 tensors holding small integers and the only non-linearity is ReLU,
so every output is an exact integer-valued function of (sequence, extra args): a transposed
index, a wrong slice or a mis-paired argument shows up as an exact inequality rather than
hiding in rounding.  Weights are a deterministic function of an integer seed that is part
of the generated case.
"""
import numpy
import torch


class ExactNet(torch.nn.Module):
    """y_k[b] = reshape( relu(X.W1_k) * 3 - (X.W2_k) + sum_j m_kj * code(arg_j[b]) , out_shape_k )

    X: (B, A, L) any dtype; args: integer tensors (B, ...) - code() is a position-weighted sum so
    that permuted entries differ.  `outputs` is a list of trailing shapes, e.g. [(3,), (2, 2)];
    `container` in {"tensor", "tuple", "list"} ("tensor" requires one output).
    Every forward records (training flag, grad enabled, batch shape) in self.calls.
    """

    def __init__(self, A, L, outputs, n_args=0, seed=0, container="tensor", wmax=9, has_param=True, param_dtype=torch.float64):
        super().__init__()
        rs = numpy.random.RandomState(seed % (2 ** 31))
        self.A, self.L = A, L
        self.outputs = [tuple(o) for o in outputs]
        self.container = container
        self.n_args = n_args
        self.calls = []
        W1, W2 = [], []
        for o in self.outputs:
            n = int(numpy.prod(o))
            W1.append(torch.tensor(rs.randint(-wmax, wmax + 1, size=(n, A, L)), dtype=param_dtype))   # small integers: exact in float32 too
            W2.append(torch.tensor(rs.randint(-wmax, wmax + 1, size=(n, A, L)), dtype=param_dtype))
        if has_param:
            self.W1 = torch.nn.ParameterList([torch.nn.Parameter(w) for w in W1])
            self.W2 = torch.nn.ParameterList([torch.nn.Parameter(w) for w in W2])
        else:
            self.W1, self.W2 = W1, W2
        self.m = rs.randint(1, 50, size=(len(self.outputs), max(n_args, 1))) * 1000

    def forward(self, X, *args):
        self.calls.append((self.training, torch.is_grad_enabled(), tuple(X.shape), len(args)))
        x = X.to(torch.float64)
        B = x.shape[0]
        outs = []
        for k, o in enumerate(self.outputs):
            h1 = torch.einsum("bcl,ocl->bo", x, self.W1[k].to(torch.float64))
            h2 = torch.einsum("bcl,ocl->bo", x, self.W2[k].to(torch.float64))
            y = torch.relu(h1) * 3 - h2
            for j, a in enumerate(args):
                af = a.to(torch.float64).reshape(B, -1)
                w = torch.arange(1, af.shape[1] + 1, dtype=torch.float64)
                y = y + float(self.m[k, j]) * (af * w[None]).sum(dim=1, keepdim=True)
            outs.append(y.reshape(B, *o))
        if self.container == "tensor":
            return outs[0]
        if self.container == "tuple":
            return tuple(outs)
        return list(outs)

    def reference(self, X, *args):
        """Per-example evaluation, one example at a time, in eval mode, no grad."""
        was = self.training
        self.eval()
        saved = list(self.calls)
        with torch.no_grad():
            rows = [self.forward(X[i:i + 1], *[a[i:i + 1] for a in args]) for i in range(X.shape[0])]
        self.calls = saved
        self.train(was)
        if self.container == "tensor":
            return torch.cat(rows)
        return [torch.cat([r[k] for r in rows]) for k in range(len(self.outputs))]

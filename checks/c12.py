"""C12 - FIMO reports exactly the windows above threshold, both strands, fields correct."""
import math
import os
import tempfile

import numba
import numpy
import torch
from hypothesis import strategies as st

from pbt.harness import Sub, Violation, Skip, SutRaised, require, sut
from pbt.ref import fimo_ref as R

from tangermeme.tools.fimo import fimo

PROPERTY = "C12"
LEVEL = "exploration"
RULE = ("cases = (1-8 motifs of width 2-20 as integer column weights, 1-6 sequences over ACGTN - random, with the motif consensus "
        "planted at offset 0 / L-w / interior on either strand, some shorter than a motif - p-value threshold 1e-1..1e-6, bin size, "
        "eps, reverse_complement on/off, tensor or FASTA input, dim 0/1, return_counts, numba threads 1-16) drawn by Hypothesis; "
        "thorough adds a directed class where a planted window's score is tuned into the band between the float32-rounded and the "
        "exact score threshold. Oracle = pure-numpy scanner over every start 0..L-w on both strands with the score threshold derived "
        "from the exact C11 tail table; hit sets compared order-free with all fields. Windows within 1e-9(1+|t|) of the threshold or "
        "1e-9 of a bin edge are ignored and counted. Non-trivial: >= 1 expected hit.")
ASSUMPTIONS = ["for negative scores the table entry of either the truncated or the floored bin is accepted ('its score bin')",
               "motif names are unique; FASTA names are seq0, seq1, ..."]

LET = "ACGT"


def _pwm(cols):
    c = numpy.array(cols, dtype=numpy.float64)
    return (c / c.sum(axis=1, keepdims=True)).T.copy()


def _idx(s):
    return numpy.array([LET.find(ch) for ch in s.upper()], dtype=numpy.int64)


def _rc(s):
    m = {"A": "T", "C": "G", "G": "C", "T": "A", "N": "N", "a": "t", "c": "g", "g": "c", "t": "a", "n": "n"}
    return "".join(m[ch] for ch in reversed(s))


class MotifRef:
    def __init__(self, pwm, eps, bin_size, log_threshold):
        self.w = pwm.shape[1]
        self.lp = R.log_pwm(pwm, eps)
        self.lp_rc = R.log_pwm(R.revcomp_pwm(pwm), eps)
        ip, tie = R.int_scores(self.lp, bin_size)
        if tie:
            raise Skip()
        self.lo, self.counts = R.exact_counts(ip)
        self.tail = numpy.cumsum(self.counts[::-1])[::-1]
        self.bin = bin_size
        # first integer score whose exact tail probability is below the threshold
        self.t_int = None
        self.tie_at_threshold = False
        for k in range(len(self.tail) + 1):
            lt = -numpy.inf if k == len(self.tail) or self.tail[k] == 0 else math.log2(int(self.tail[k])) - 2 * self.w
            if abs(lt - log_threshold) < 1e-9:
                # the exact tail probability equals the threshold (e.g. threshold 4^-w): "below the threshold" is strict, so this bin
                # does not qualify - provided the implementation's own table holds exactly that value; a table entry that merely
                # rounds to either side of it is a genuine numerical ambiguity and the case is skipped
                from tangermeme.tools.fimo import _pwm_to_mapping as _ptm
                sm, tab = _ptm(numpy.ascontiguousarray(self.lp), float(bin_size))
                b = self.lo + k - int(sm)
                if 0 <= b < len(tab) and tab[b] == log_threshold:
                    self.tie_at_threshold = True
                    continue
                raise Skip()
            if lt < log_threshold:
                self.t_int = self.lo + k
                break
        self.t = self.t_int * bin_size

    def log2_p(self, s_int):
        k = s_int - self.lo
        if k <= 0:
            return 0.0
        if k >= len(self.tail) or self.tail[k] == 0:
            return -numpy.inf
        return math.log2(int(self.tail[k])) - 2 * self.w


def expected_hits(case, refs):
    """dict key (motif, seq, start, strand) -> (score, set of acceptable p) plus the set of ambiguous keys"""
    exp, amb = {}, set()
    for mi, ref in enumerate(refs):
        for si, s in enumerate(case["seqs"]):
            x = _idx(s)
            for strand, lp in (("+", ref.lp), ("-", ref.lp_rc)):
                if strand == "-" and not case["rc"]:
                    continue
                sc = R.scan(x, lp)      # adds column contributions in the same left-to-right order as the scanner
                for i, v in enumerate(sc):
                    key = (mi, si, i, strand)
                    if abs(v - ref.t) <= 1e-9 * (1 + abs(ref.t)):
                        amb.add(key)
                        continue
                    if v > ref.t:
                        q = v / ref.bin
                        if abs(q - round(q)) < 1e-9:
                            amb.add(key)
                            continue
                        ps = {ref.log2_p(int(math.trunc(q))), ref.log2_p(int(math.floor(q)))}
                        exp[key] = (v, ps)
    return exp, amb


def _run_fimo(case, motifs, seqs_arg, **kw):
    return fimo(motifs, seqs_arg, bin_size=case["bin_size"], eps=case["eps"], threshold=case["threshold"],
                reverse_complement=case["rc"], **kw)


def _frames_to_hits(frames, names, case):
    got = {}
    for mi, df in enumerate(frames):
        require(list(df.columns) == ["motif_name", "motif_idx", "sequence_name", "start", "end", "strand", "score", "p-value"],
                "fimo-columns", lambda: str(list(df.columns)))
        for row in df.itertuples(index=False):
            require(row[0] == names[mi] and int(row[1]) == mi, "fimo-motif-field", lambda: "frame %d row %r" % (mi, row))
            sn = row[2]
            si = int(sn[3:]) if isinstance(sn, str) else int(sn)
            key = (mi, si, int(row[3]), row[5])
            require(key not in got, "fimo-duplicate-hit", lambda: str(key))
            got[key] = (int(row[4]), float(row[6]), float(row[7]))
    return got


def scan_case(case, ctx):
    if "pwms" in case:
        motifs_np = [numpy.array(p, dtype=numpy.float64) for p in case["pwms"]]      # explicit (4, w) float PWMs (directed class)
    else:
        motifs_np = [_pwm(c) for c in case["motifs"]]
    names = ["m%d" % i for i in range(len(motifs_np))]
    meme_dir = None
    if case.get("motif_input") == "meme_file":
        # fimo() also accepts a MEME file name: write the motifs with 6 decimals and scan with exactly those rounded values
        motifs_np = [numpy.round(p, 6) for p in motifs_np]
        meme_dir = tempfile.TemporaryDirectory(prefix="c12m_")
        mpath = os.path.join(meme_dir.name, "m.meme")
        with open(mpath, "w") as fh:
            fh.write("MEME version 4\n\nALPHABET= ACGT\n\nstrands: + -\n\nBackground letter frequencies\nA 0.25 C 0.25 G 0.25 T 0.25\n\n")
            for n_, p_ in zip(names, motifs_np):
                fh.write("MOTIF %s\nletter-probability matrix: alength= 4 w= %d nsites= 20 E= 0\n" % (n_, p_.shape[1]))
                for j in range(p_.shape[1]):
                    fh.write(" " + "  ".join("%.6f" % v for v in p_[:, j]) + "\n")
                fh.write("URL http://example.org/%s\n\n" % n_)
        ctx.label("motifs_from_meme_file")
    motifs = {n: torch.tensor(p) for n, p in zip(names, motifs_np)}
    motifs_arg = motifs if meme_dir is None else mpath
    log_thr = math.log2(case["threshold"])
    refs = [MotifRef(p, case["eps"], case["bin_size"], log_thr) for p in motifs_np]
    exp, amb = expected_hits(case, refs)
    seqs = case["seqs"]
    numba.set_num_threads(min(case.get("threads", 1), numba.config.NUMBA_NUM_THREADS))
    tmp = None
    try:
        if case["input"] == "fasta":
            tmp = tempfile.TemporaryDirectory(prefix="c12_")
            path = os.path.join(tmp.name, "x.fa")
            lw = case.get("line_width", 60)
            with open(path, "w") as fh:
                for i, s in enumerate(seqs):
                    fh.write(">seq%d\n" % i)
                    for k in range(0, len(s), lw):
                        fh.write(s[k:k + lw] + "\n")
            arg = path
        else:
            arg = torch.stack([torch.tensor(numpy.array([[1.0 if ch.upper() == c else 0.0 for ch in s] for c in LET])) for s in seqs])
            if case["input"] == "numpy":
                arg = arg.numpy()
        if case.get("pre_call_eps"):
            # an earlier scan with another pseudocount (same motifs, same bin size) must not influence this one
            try:
                fimo(motifs_arg, arg, bin_size=case["bin_size"], eps=case["pre_call_eps"], threshold=case["threshold"], reverse_complement=case["rc"])
            except Exception:  # noqa: BLE001
                pass
            ctx.label("after_call_with_other_eps")
        arg_keep = None if isinstance(arg, str) else (arg.clone() if isinstance(arg, torch.Tensor) else arg.copy())
        frames = sut(_run_fimo, case, motifs_arg, arg)
        if arg_keep is not None:
            same_ = torch.equal(arg, arg_keep) if isinstance(arg, torch.Tensor) else bool((arg == arg_keep).all())
            require(same_, "fimo-sequences-modified", "the caller's sequence array was changed by the scan")
        for n_, p_ in zip(names, motifs_np):
            require(torch.equal(motifs[n_], torch.tensor(p_)), "fimo-motif-modified", lambda: "the caller's PWM tensor %s was changed by the scan" % n_)
        require(isinstance(frames, list) and len(frames) == len(motifs_np), "fimo-n-frames", lambda: "%d frames for %d motifs" % (len(frames), len(motifs_np)))
        got = _frames_to_hits(frames, names, case)
        desc = "threshold=%g bin=%g eps=%g rc=%s input=%s" % (case["threshold"], case["bin_size"], case["eps"], case["rc"], case["input"])
        for key, (v, ps) in exp.items():
            if key not in got:
                mi, si, i, strand = key
                raise Violation("fimo-missing-hit", "%s: motif %d (w=%d) seq %d (L=%d) start %d strand %s score %.9g > t=%.9g not reported%s" % (
                    desc, mi, refs[mi].w, si, len(seqs[si]), i, strand, v, refs[mi].t, " [LAST WINDOW]" if i == len(seqs[si]) - refs[mi].w else ""))
        for key, (end, score, p) in got.items():
            mi, si, i, strand = key
            if key in amb:
                continue
            if key not in exp:
                x = _idx(seqs[si]) if si < len(seqs) else None
                raise Violation("fimo-extra-hit", "%s: motif %d seq %d start %d strand %s reported (score %.12g, p %.6g) but t=%.12g" % (
                    desc, mi, si, i, strand, score, p, refs[mi].t))
            v, ps = exp[key]
            require(end == i + refs[mi].w, "fimo-end-field", lambda: "start %d end %d w %d" % (i, end, refs[mi].w))
            require(abs(score - v) <= 1e-9 * (1 + abs(v)), "fimo-score-field", lambda: "%s: key %r score %r want %r" % (desc, key, score, v))
            okp = any((lp == -numpy.inf and p == 0.0) or (lp > -numpy.inf and abs(p - 2.0 ** lp) <= 1e-9 * 2.0 ** lp) for lp in ps)
            require(okp, "fimo-pvalue-field", lambda: "%s: key %r score %r: p-value %r, exact table gives %s" % (desc, key, score, p, [2.0 ** lp for lp in ps]))
            require(p < case["threshold"], "fimo-pvalue-not-below-threshold", lambda: "%s: key %r p=%r" % (desc, key, p))
        # other views of the same hit set
        view = case.get("view")
        if view == "counts":
            counts = sut(_run_fimo, case, motifs_arg, arg, return_counts=True)
            for mi in range(len(motifs_np)):
                lo = sum(1 for k in exp if k[0] == mi)
                hi = lo + sum(1 for k in amb if k[0] == mi)
                require(lo <= int(counts[mi]) <= hi, "fimo-return-counts", lambda: "motif %d count %d, expected %d..%d" % (mi, int(counts[mi]), lo, hi))
        elif view == "dim1":
            fr1 = sut(_run_fimo, case, motifs_arg, arg, dim=1)
            keys1 = set()
            for df in fr1:
                require(df["sequence_name"].nunique() == 1, "fimo-dim1-grouping", "a dim=1 frame mixes sequences")
                for row in df.itertuples(index=False):
                    sn = row[2]
                    keys1.add((int(row[1]), int(sn[3:]) if isinstance(sn, str) else int(sn), int(row[3]), row[5]))
            require(keys1 == set(got.keys()), "fimo-dim1-differs", lambda: "dim=1 describes %d hits, dim=0 %d" % (len(keys1), len(got)))
        elif view == "threads":
            numba.set_num_threads(min(case.get("threads2", 16), numba.config.NUMBA_NUM_THREADS))
            fr2 = sut(_run_fimo, case, motifs_arg, arg)
            got2 = _frames_to_hits(fr2, names, case)
            require(got2 == got, "fimo-thread-count-changes-result", lambda: "threads %d vs %d" % (case.get("threads", 1), case.get("threads2", 16)))
        elif view == "revcomp" and case["input"] != "fasta" and case["rc"]:
            # scanning the reverse complement of every sequence must give the mirror-image hit set with strands exchanged
            rseqs = [_rc(s_) for s_ in seqs]
            arg_r = torch.stack([torch.tensor(numpy.array([[1.0 if ch.upper() == c else 0.0 for ch in s_] for c in LET])) for s_ in rseqs])
            fr_r = sut(_run_fimo, case, motifs_arg, arg_r)
            got_r = _frames_to_hits(fr_r, names, case)

            def mirror(key):
                mi, si, i, strand = key
                return (mi, si, len(seqs[si]) - i - refs[mi].w, "-" if strand == "+" else "+")

            amb_m = set(mirror(k_) for k_ in amb)
            a_keys = set(mirror(k_) for k_ in got if k_ not in amb)
            b_keys = set(k_ for k_ in got_r if k_ not in amb_m)
            # windows within 1e-9 of the threshold can flip when the summation order is mirrored: drop them on both sides
            near = set()
            for k_ in a_keys ^ b_keys:
                mi, si, i, strand = k_
                x_ = _idx(rseqs[si])
                lp_ = refs[mi].lp if strand == "+" else refs[mi].lp_rc
                v_ = R.scan(x_, lp_)[i] if 0 <= i <= len(x_) - refs[mi].w else None
                if v_ is not None and abs(v_ - refs[mi].t) <= 1e-9 * (1 + abs(refs[mi].t)):
                    near.add(k_)
            require((a_keys ^ b_keys) <= near, "fimo-reverse-complement-not-mirror-image",
                    lambda: "%s: mirrored hits of the original %d, hits on the reverse complement %d, differing keys %s" % (
                        desc, len(a_keys), len(b_keys), sorted(a_keys ^ b_keys)[:4]))
            for k_ in a_keys & b_keys:
                mi, si, i, strand = k_
                o = (mi, si, len(seqs[si]) - i - refs[mi].w, "-" if strand == "+" else "+")
                require(abs(got_r[k_][1] - got[o][1]) <= 1e-9 * (1 + abs(got[o][1])), "fimo-reverse-complement-score-differs", lambda: str(k_))
        elif view == "other_input" and case["input"] != "fasta" and len(set(len(s) for s in seqs)) == 1:
            with tempfile.TemporaryDirectory(prefix="c12b_") as d2:
                path = os.path.join(d2, "y.fa")
                with open(path, "w") as fh:
                    for i, s in enumerate(seqs):
                        fh.write(">seq%d\n%s\n" % (i, s))
                fr3 = sut(_run_fimo, case, motifs_arg, path)
                got3 = _frames_to_hits(fr3, names, case)
                require(got3 == got, "fimo-fasta-vs-tensor", lambda: "FASTA gives %d hits, tensor %d" % (len(got3), len(got)))
    finally:
        numba.set_num_threads(numba.config.NUMBA_NUM_THREADS)
        if tmp is not None:
            tmp.cleanup()
        if meme_dir is not None:
            meme_dir.cleanup()
    ctx.nt(len(exp) >= 1)
    ctx.extra["inner"] = sum(max(0, len(s) - r.w + 1) for s in seqs for r in refs) * (2 if case["rc"] else 1)
    ctx.label("input_" + case["input"], "rc" if case["rc"] else "no_rc")
    if amb:
        ctx.label("has_ambiguous_window")
    for (mi, si, i, strand) in exp:
        if i == len(seqs[si]) - refs[mi].w:
            ctx.label("hit_in_last_window")
        if i == 0:
            ctx.label("hit_at_0")
        if strand == "-":
            ctx.label("minus_strand_hit")
        if "N" in seqs[si][i:i + refs[mi].w].upper():
            ctx.label("hit_window_contains_N")
    if any(len(s) < r.w for s in seqs for r in refs):
        ctx.label("sequence_shorter_than_motif")
    if any(r.tie_at_threshold for r in refs):
        ctx.label("tail_probability_equals_threshold")
    if view:
        ctx.label("view_" + view)


# ------------------------------------------------------------------ generators
@st.composite
def motif_cols(draw, w):
    cols = []
    for _ in range(w):
        mode = draw(st.integers(0, 5))
        if mode == 0:
            c = [1, 1, 1, 1]
        elif mode == 1:
            c = [draw(st.integers(0, 3)) for _ in range(4)]
            c[draw(st.integers(0, 3))] += 8
        else:
            c = [draw(st.integers(1, 40)) for _ in range(4)]
            c[draw(st.integers(0, 3))] += draw(st.sampled_from([40, 200, 1000]))
        cols.append(c)
    return cols


def _consensus(cols):
    return "".join(LET[int(numpy.argmax(c))] for c in cols)


@st.composite
def strategy(draw):
    nm = draw(st.integers(1, 8))
    motifs = [draw(motif_cols(draw(st.integers(2, 20)))) for _ in range(nm)]
    inp = draw(st.sampled_from(["tensor", "tensor", "fasta", "fasta", "numpy"]))
    ns = draw(st.integers(1, 6))
    if inp == "fasta":
        lens = [draw(st.one_of(st.integers(1, 12), st.integers(10, 120))) for _ in range(ns)]
    else:
        lens = [draw(st.integers(2, 100))] * ns
    seqs = []
    for L in lens:
        s = list(draw(st.text(alphabet="ACGT", min_size=L, max_size=L)))
        for _ in range(draw(st.integers(0, 2))):
            m = motifs[draw(st.integers(0, nm - 1))]
            cons = _consensus(m)
            if draw(st.booleans()):
                cons = _rc(cons)
            if len(cons) <= L:
                where = draw(st.sampled_from(["start", "end", "end", "mid"]))
                p = {"start": 0, "end": L - len(cons), "mid": draw(st.integers(0, L - len(cons)))}[where]
                s[p:p + len(cons)] = list(cons)
        for _ in range(draw(st.integers(0, 2))):
            s[draw(st.integers(0, L - 1))] = "N"
        s = "".join(s)
        if inp == "fasta" and draw(st.integers(0, 3)) == 0:
            k = draw(st.integers(0, L))
            s = s[:k].lower() + s[k:]
        seqs.append(s)
    thr = draw(st.sampled_from([1e-1, 1e-2, 1e-3, 1e-4, 1e-4, 1e-5, 1e-6]))
    small = [len(m) for m in motifs if len(m) <= 8]
    if small and draw(st.integers(0, 5)) == 0:
        thr = 4.0 ** (-draw(st.sampled_from(small)))       # exactly the probability of one sequence: the top bin's p equals the threshold
    return {"motifs": motifs, "seqs": seqs, "threshold": thr, "pre_call_eps": draw(st.sampled_from([None, None, None, 1e-2, 1e-3])),
            "bin_size": draw(st.sampled_from([0.1, 0.1, 0.05, 0.25, 0.5, 1.0])), "eps": draw(st.sampled_from([1e-4, 1e-4, 1e-3, 1e-2])),
            "rc": draw(st.sampled_from([True, True, False])), "input": inp, "line_width": draw(st.sampled_from([60, 7, 1000])),
            "threads": draw(st.sampled_from([1, 1, 2, 4])), "threads2": draw(st.sampled_from([1, 3, 8, 16])),
            "view": draw(st.sampled_from([None, "counts", "dim1", "threads", "other_input", "revcomp"])),
            "motif_input": draw(st.sampled_from(["dict", "dict", "meme_file"]))}


def _tune_into_band(cols, bin_size, eps, threshold, side):
    """Deterministic construction: returns (pwm (4,w) list, planted sequence) such that the planted window's float64 score lies strictly
    between the exact score threshold t and float32(t) - the only place where a float32-stored threshold decides differently - or None.
    Fixed-point iteration: shifting the planted entries inside their rounding cells (and re-normalising the column) may move the
    table, so threshold and target are recomputed from the current PWM every round."""
    p2 = _pwm(cols)
    w = p2.shape[1]
    seq = None
    for rnd in range(12):
        try:
            ref = MotifRef(p2, eps, bin_size, math.log2(threshold))
        except Skip:
            return None
        t = ref.t
        t32 = float(numpy.float32(t))
        if t32 == t or not numpy.isfinite(t32):
            return None
        target = (t + t32) / 2.0
        lp = ref.lp.copy()
        ip, _ = R.int_scores(lp, bin_size)
        if seq is None:
            # characters whose integer scores sum as close to t_int as possible (subset-sum DP with back-pointers)
            reach = {0: []}
            for j in range(w):
                nxt = {}
                for ssum, path in reach.items():
                    for c in range(4):
                        v = ssum + int(ip[c, j])
                        if v not in nxt:
                            nxt[v] = path + [c]
                reach = nxt
            best = min(reach, key=lambda v: (abs(v - ref.t_int), v))
            seq = reach[best]
        x = numpy.array(seq)
        sc = float(R.scan(x, lp)[0])
        lo_, hi_ = min(t, t32), max(t, t32)
        if lo_ < sc < hi_ and abs(sc - t) > 2e-9 * (1 + abs(t)):
            return p2.tolist(), "".join(LET[c] for c in seq)
        need = target - sc
        for j, c in enumerate(seq):
            if need == 0.0:
                break
            f = lp[c, j] / bin_size - ip[c, j]
            room_up, room_dn = (0.4 - f) * bin_size, (-0.4 - f) * bin_size
            d = min(max(need, min(room_dn, 0.0)), max(room_up, 0.0))
            if d == 0.0:
                continue
            newp = 0.25 * 2.0 ** (lp[c, j] + d) - eps
            k = max([k_ for k_ in range(4) if k_ != c], key=lambda k_: p2[k_, j])
            if not (0.0 < newp < 1.0) or p2[k, j] - (newp - p2[c, j]) <= 0:
                continue
            p2[k, j] -= newp - p2[c, j]
            p2[c, j] = newp
            need -= d
    return None


@st.composite
def band_strategy(draw):
    from hypothesis import assume
    w = draw(st.integers(4, 10))
    cols = draw(motif_cols(w))
    bin_size = draw(st.sampled_from([0.1, 0.1, 0.05, 0.02]))
    eps = draw(st.sampled_from([1e-4, 1e-3]))
    threshold = draw(st.sampled_from([1e-1, 1e-2, 1e-3, 1e-4]))
    out = _tune_into_band(cols, bin_size, eps, threshold, None)
    assume(out is not None)
    pwm, seq = out
    pad_l = draw(st.text(alphabet="ACGT", min_size=0, max_size=3))
    pad_r = draw(st.text(alphabet="ACGT", min_size=0, max_size=3))
    return {"pwms": [pwm], "seqs": [pad_l + seq + pad_r], "threshold": threshold, "bin_size": bin_size, "eps": eps, "rc": draw(st.booleans()),
            "input": "tensor", "threads": 1, "threads2": 1, "view": None, "directed": True}


def band_case(case, ctx):
    scan_case(case, ctx)
    ctx.nt()          # a window that must (not) be reported although float32(t) says otherwise is the point of this class
    ctx.label("score_between_t_and_float32_t")


def subchecks(tier):
    return [Sub("scan", scan_case, strategy=strategy, n_quick=600, n_thorough=40000, shards_quick=4),
            Sub("threshold_band", band_case, strategy=band_strategy, n_quick=120, n_thorough=5000, shards_quick=2)]

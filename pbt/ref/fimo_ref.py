"""Independent reference for FIMO's score -> p-value tables and for the scan itself.

Written from the statement of C11/C12: exact integer counting of sequences per discretised score
(int64 convolution, exact because 4^w <= 2^60 for w <= 30; brute force over all 4^w sequences for
small w), and a pure-Python/numpy scanner.
"""
import itertools
import math

import numpy


def log_pwm(pwm, eps):
    """(4, w) probabilities -> log-odds exactly as fimo() builds them."""
    return numpy.log2(numpy.asarray(pwm, dtype=numpy.float64) + eps) - math.log2(0.25)


def int_scores(lp, bin_size):
    q = lp / bin_size
    near_tie = numpy.abs(numpy.abs(q - numpy.floor(q)) - 0.5).min() < 1e-9
    return numpy.round(q).astype(numpy.int64), bool(near_tie)


def exact_counts(ip):
    """ip: (4, w) integer scores.  Returns (lo, counts) with counts[k] = #sequences of total score lo + k (int64, exact)."""
    n, w = ip.shape
    lo = int(ip.min(axis=0).sum())
    hi = int(ip.max(axis=0).sum())
    size = hi - lo + 1
    cur = numpy.zeros(size, dtype=numpy.int64)
    base = 0                       # cur[k] <-> partial score (running minimum) + k
    cur[0] = 1
    for i in range(w):
        cmin = int(ip[:, i].min())
        nxt = numpy.zeros(size, dtype=numpy.int64)
        for c in range(n):
            d = int(ip[c, i]) - cmin
            if d == 0:
                nxt += cur
            else:
                nxt[d:] += cur[:-d]
        cur = nxt
    return lo, cur


def brute_counts(ip):
    n, w = ip.shape
    tot = numpy.zeros((1,), dtype=numpy.int64)
    for i in range(w):
        tot = (tot[:, None] + ip[:, i][None, :]).reshape(-1)
    lo = int(tot.min())
    return lo, numpy.bincount(tot - lo).astype(numpy.int64)


def exact_log2_tail(lo, counts, w, smallest, length):
    """Expected table of `length` entries where entry b is log2 P(score >= smallest + b)."""
    total = 4 ** w
    tail = numpy.cumsum(counts[::-1])[::-1]            # tail[k] = #seq with score >= lo + k  (exact int64)
    out = numpy.empty(length, dtype=numpy.float64)
    for b in range(length):
        s = smallest + b
        k = s - lo
        if k <= 0:
            out[b] = 0.0
        elif k >= len(tail):
            out[b] = -numpy.inf
        else:
            t = int(tail[k])
            out[b] = -numpy.inf if t == 0 else math.log2(t) - 2 * w
    return out


def revcomp_pwm(pwm):
    return numpy.asarray(pwm)[::-1, ::-1]


def scan(seq_idx, lp):
    """seq_idx: int array of character indices (-1 = unknown).  Returns float64 scores for every start 0..L-w (empty if L < w)."""
    L = len(seq_idx)
    w = lp.shape[1]
    if L < w:
        return numpy.zeros(0)
    out = numpy.zeros(L - w + 1)
    for j in range(w):
        col = seq_idx[j:j + L - w + 1]
        contrib = numpy.where(col >= 0, lp[numpy.clip(col, 0, None), j], 0.0)
        out = out + contrib
    return out


def scan_sequential(seq_idx, lp):
    """Same as scan() but summed left-to-right per window in plain Python floats (the order the SUT uses)."""
    L = len(seq_idx)
    w = lp.shape[1]
    res = []
    for i in range(L - w + 1):
        s = 0.0
        for j in range(w):
            c = seq_idx[i + j]
            if c >= 0:
                s += float(lp[c, j])
        res.append(s)
    return numpy.array(res)

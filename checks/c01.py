"""C01 - edit primitives apply exactly the requested string edit and nothing else."""
import itertools

import torch
from hypothesis import strategies as st

from pbt.harness import Sub, Violation, SutRaised, require, sut
from pbt import gen

from tangermeme.ersatz import substitute, insert, delete, multisubstitute, randomize

PROPERTY = "C01"
LEVEL = "exploration"
RULE = ("cases = (alphabet size 2-6, batch of equal-length sequences, edit op, motif as string / shared tensor / "
        "per-example tensor / wrong-batch tensor, integer position incl. negative and past-the-end, None) drawn by "
        "Hypothesis, plus the complete scope {every sequence of length <= 5} x {every motif of length <= 3} x {every "
        "start in [-3, L+3]} for substitute/insert and every (start, end) for delete/randomize. Oracle = Python string "
        "edit; in-range => exact result, out-of-range => must raise; inputs compared with clones. Non-trivial: expected "
        "result differs from the input, or an expected rejection, or a boundary position. Distinct = SHA-1 of case JSON.")
ASSUMPTIONS = ["motifs only contain alphabet characters", "spacings are non-negative",
               "X and motif tensors share one dtype"]


def _alpha(A):
    return list(gen.LETTERS[:A])


def _motif_arg(case, alpha, dtype, B):
    """Returns (argument passed to tangermeme, per-example motif strings or None if it must be rejected)."""
    form = case["motif_form"]
    ms = case["motifs"]
    if form == "str":
        return ms[0], [ms[0]] * B, None
    if form == "shared":
        t = gen.encode(ms[0], alpha, dtype).unsqueeze(0)
        return t, [ms[0]] * B, t
    if form == "per_example":
        full = [ms[i % len(ms)] for i in range(B)]
        t = gen.encode_batch(full, alpha, dtype)
        return t, full, t
    if form == "wrong_batch":
        k = case["wrong_k"]
        full = [ms[i % len(ms)] for i in range(k)]
        t = gen.encode_batch(full, alpha, dtype)
        return t, None, t
    raise ValueError(form)


def _decode_all(Y, alpha, clause):
    out = []
    for i in range(Y.shape[0]):
        s = gen.decode_strict(Y[i], alpha)
        require(s is not None, clause, lambda: "row %d is not a valid one-hot encoding: %s" % (i, Y[i].tolist()))
        out.append(s)
    return out


def _call(fn, expect_ok, clause_prefix, *a, **k):
    """Call the primitive; returns the value or None if it (correctly) rejected."""
    try:
        y = fn(*a, **k)
    except Exception as e:  # noqa: BLE001
        if expect_ok:
            raise SutRaised(e) from e
        return None
    if not expect_ok:
        raise Violation(clause_prefix + "-out-of-range-accepted", "returned a tensor of shape %s" % (tuple(y.shape),))
    return y


def edit_case(case, ctx):
    A = case["A"]
    alpha = _alpha(A)
    seqs = case["seqs"]
    B, L = len(seqs), len(seqs[0])
    dtype = gen.DTYPES[case.get("dtype", "int8")]
    X = gen.encode_batch(seqs, alpha, dtype)
    Xc = X.clone()
    op = case["op"]
    ctx.label(op)

    if op in ("substitute", "insert"):
        marg, mstr, mt = _motif_arg(case, alpha, dtype, B)
        mtc = None if mt is None else mt.clone()
        m = len(case["motifs"][0])
        p = case["start"]
        if op == "substitute":
            pe = (L // 2 - m // 2) if p is None else p
            ok = mstr is not None and m <= L and 0 <= pe <= L - m
            want = None if not ok else [s[:pe] + mo + s[pe + m:] for s, mo in zip(seqs, mstr)]
        else:
            pe = (L // 2) if p is None else p
            ok = mstr is not None and 0 <= pe <= L
            want = None if not ok else [s[:pe] + mo + s[pe:] for s, mo in zip(seqs, mstr)]
        fn = substitute if op == "substitute" else insert
        Y = _call(fn, ok, op, X, marg, start=p, alphabet=alpha)
        require(torch.equal(X, Xc), op + "-input-modified", "X changed")
        if mt is not None:
            require(torch.equal(mt, mtc), op + "-motif-modified", "motif tensor changed")
        if ok:
            wantL = L if op == "substitute" else L + m
            require(tuple(Y.shape) == (B, A, wantL), op + "-shape", lambda: "%s" % (tuple(Y.shape),))
            got = _decode_all(Y, alpha, op + "-not-one-hot")
            require(got == want, op + "-wrong-edit", lambda: "seqs=%r motif=%r start=%r got=%r want=%r" % (
                seqs[:3], mstr[:3], p, got[:3], want[:3]))
            ctx.nt(want != seqs or pe in (0, L - m, L))
            if pe == L - m:
                ctx.label(op + "_at_L-m")
            if pe == L:
                ctx.label(op + "_at_L")
            if pe > L - m:
                ctx.label(op + "_past_L-m")
            if p is None:
                ctx.label(op + "_default_start")
        else:
            ctx.nt()
            ctx.label(op + "_expected_reject")
        ctx.label(op + "_" + case["motif_form"])
        return

    if op == "delete":
        a, b = case["start"], case["end"]
        ok = 0 <= a < b <= L
        Y = _call(delete, ok, op, X, a, b)
        require(torch.equal(X, Xc), "delete-input-modified", "")
        if ok:
            want = [s[:a] + s[b:] for s in seqs]
            require(tuple(Y.shape) == (B, A, L - (b - a)), "delete-shape", lambda: str(tuple(Y.shape)))
            if L - (b - a) > 0:
                got = _decode_all(Y, alpha, "delete-not-one-hot")
                require(got == want, "delete-wrong-edit", lambda: "seqs=%r [%d,%d) got=%r want=%r" % (seqs[:3], a, b, got[:3], want[:3]))
            ctx.nt()
            if b == L:
                ctx.label("delete_to_end")
        else:
            ctx.nt()
            ctx.label("delete_expected_reject")
        return

    if op == "randomize":
        a, b, n = case["start"], case["end"], case["n"]
        ok = 0 <= a < b <= L
        probs = case["probs"]
        if probs is None:
            pr = [[1.0 / A] * A]
        else:
            pr = [[w / sum(row) for w in row] for row in probs]
        pt = torch.tensor(pr, dtype=torch.float64)
        Y = _call(randomize, ok, op, X, a, b, probs=pt, n=n, random_state=case["seed"])
        require(torch.equal(X, Xc), "randomize-input-modified", "")
        if ok:
            require(tuple(Y.shape) == (B, n, A, L), "randomize-shape", lambda: str(tuple(Y.shape)))
            for i in range(B):
                for j in range(n):
                    s = gen.decode_strict(Y[i, j], alpha)
                    require(s is not None, "randomize-not-one-hot", lambda: str(Y[i, j].tolist()))
                    require(s[:a] == seqs[i][:a] and s[b:] == seqs[i][b:], "randomize-outside-region",
                            lambda: "seq=%r [%d,%d) got=%r" % (seqs[i], a, b, s))
            ctx.nt()
            if b == L:
                ctx.label("randomize_to_end")
        else:
            ctx.nt()
            ctx.label("randomize_expected_reject")
        return

    if op == "multisubstitute":
        motifs = case["motifs"]
        forms = case["forms"]
        spacing = case["spacing"]
        sp_list = [spacing] * (len(motifs) - 1) if isinstance(spacing, int) else list(spacing)
        total = sum(len(m) for m in motifs) + sum(sp_list)
        p = case["start"]
        pe = (L // 2 - total // 2) if p is None else p
        ok = pe >= 0 and pe + total <= L
        margs, tens = [], []
        for mo, f in zip(motifs, forms):
            if f == "str":
                margs.append(mo)
            else:
                t = gen.encode(mo, alpha, dtype).unsqueeze(0)
                if f == "per_example":
                    t = t.repeat(B, 1, 1)
                margs.append(t)
                tens.append((t, t.clone()))
        sp_arg = list(spacing) if isinstance(spacing, list) else spacing
        Y = _call(multisubstitute, ok, op, X, margs, sp_arg, start=p, alphabet=alpha)
        require(sp_arg == spacing, "multisubstitute-spacing-list-modified", lambda: "spacing %r became %r" % (spacing, sp_arg))
        if ok and isinstance(sp_arg, list):
            Y2 = _call(multisubstitute, ok, op, X, margs, sp_arg, start=p, alphabet=alpha)     # re-using the same list object
            require(torch.equal(Y, Y2), "multisubstitute-second-call-differs", "same arguments (same spacing list object) gave a different result")
        require(torch.equal(X, Xc), "multisubstitute-input-modified", "")
        for t, tc in tens:
            require(torch.equal(t, tc), "multisubstitute-motif-modified", "")
        if ok:
            want = []
            for s in seqs:
                q = pe
                for k, mo in enumerate(motifs):
                    s = s[:q] + mo + s[q + len(mo):]
                    q += len(mo) + (sp_list[k] if k < len(sp_list) else 0)
                want.append(s)
            require(tuple(Y.shape) == (B, A, L), "multisubstitute-shape", lambda: str(tuple(Y.shape)))
            got = _decode_all(Y, alpha, "multisubstitute-not-one-hot")
            require(got == want, "multisubstitute-wrong-edit", lambda: "seqs=%r motifs=%r spacing=%r start=%r got=%r want=%r" % (
                seqs[:2], motifs, spacing, p, got[:2], want[:2]))
            ctx.nt(want != seqs or pe == 0 or pe + total == L)
            if pe + total == L:
                ctx.label("multisubstitute_ends_at_L")
            if len(motifs) >= 2:
                ctx.label("multisubstitute_multi")
        else:
            ctx.nt()
            ctx.label("multisubstitute_expected_reject")
        return
    raise ValueError(op)


# ------------------------------------------------------------------ strategies
def _strategy(maxL):
    @st.composite
    def f(draw):
        A = draw(st.integers(2, 6))
        alpha = gen.LETTERS[:A]
        B = draw(st.integers(1, 4))
        L = draw(st.integers(1, maxL))
        seqs = [draw(st.text(alphabet=alpha, min_size=L, max_size=L)) for _ in range(B)]
        op = draw(st.sampled_from(["substitute", "insert", "delete", "randomize", "multisubstitute"]))
        case = {"A": A, "seqs": seqs, "op": op, "dtype": draw(st.sampled_from(["int8", "float32", "float64", "int64"]))}
        pos = st.one_of(st.integers(-3, L + 3), st.sampled_from([0, L, L - 1]))
        if op in ("substitute", "insert"):
            m = draw(st.one_of(st.integers(1, min(L + 2, 8)), st.integers(1, max(1, min(3, L)))))
            form = draw(st.sampled_from(["str", "str", "shared", "per_example", "per_example", "wrong_batch"]))
            nm = 1 if form in ("str", "shared") else draw(st.integers(1, 4))
            case["motifs"] = [draw(st.text(alphabet=alpha, min_size=m, max_size=m)) for _ in range(nm)]
            case["motif_form"] = form
            if form == "wrong_batch":
                case["wrong_k"] = draw(st.sampled_from([k for k in range(2, 7) if k != B]))
            start = draw(st.one_of(st.none(), pos, st.sampled_from([L - m, L - m + 1, max(0, L - m)])))
            case["start"] = start
        elif op == "delete":
            case["start"] = draw(pos)
            case["end"] = draw(pos)
        elif op == "randomize":
            case["start"] = draw(pos)
            case["end"] = draw(st.one_of(pos, st.just(L)))
            case["n"] = draw(st.integers(1, 3))
            case["seed"] = draw(st.integers(0, 2 ** 31 - 1))
            pf = draw(st.sampled_from(["none", "shared", "per_example"]))
            if pf == "none":
                case["probs"] = None
            else:
                rows = 1 if pf == "shared" else B
                pr = []
                for _ in range(rows):
                    row = [draw(st.integers(0, 4)) for _ in range(A)]
                    if sum(row) == 0:
                        row[draw(st.integers(0, A - 1))] = 1
                    pr.append(row)
                case["probs"] = pr
        else:
            k = draw(st.integers(1, 3))
            case["motifs"] = [draw(st.text(alphabet=alpha, min_size=1, max_size=max(1, min(4, L)))) for _ in range(k)]
            case["forms"] = [draw(st.sampled_from(["str", "shared", "per_example"])) for _ in range(k)]
            if draw(st.booleans()):
                case["spacing"] = draw(st.integers(0, max(0, min(L - 1, 4))))
            else:
                case["spacing"] = [draw(st.integers(0, max(0, min(L - 1, 4)))) for _ in range(k - 1)]
            sp = case["spacing"]
            total = sum(len(m) for m in case["motifs"]) + (sp * (k - 1) if isinstance(sp, int) else sum(sp))
            case["start"] = draw(st.one_of(st.none(), pos, st.sampled_from([L - total, L - total + 1, 0])))
        return case
    return f()


def _all_seqs(alpha, L):
    return ["".join(t) for t in itertools.product(alpha, repeat=L)]


def exhaustive(tier):
    cases = []
    for A in ((2, 3) if tier == "quick" else (2, 3, 4)):
        alpha = gen.LETTERS[:A]
        for L in range(1, 6):
            seqs = _all_seqs(alpha, L)
            for m in range(1, 4):
                for motif in _all_seqs(alpha, m):
                    for start in list(range(-3, L + 4)) + [None]:
                        for op in ("substitute", "insert"):
                            cases.append({"A": A, "seqs": seqs, "op": op, "dtype": "int8", "motifs": [motif],
                                          "motif_form": "str" if (len(cases) % 3) else "shared", "start": start})
            for a in range(-3, L + 4):
                for b in range(-3, L + 4):
                    cases.append({"A": A, "seqs": seqs, "op": "delete", "dtype": "int8", "start": a, "end": b})
                    cases.append({"A": A, "seqs": seqs, "op": "randomize", "dtype": "int8", "start": a, "end": b,
                                  "n": 2, "seed": a * 31 + b + 100, "probs": None})
    return cases


def subchecks(tier):
    return [
        Sub("edits_random", edit_case, strategy=lambda: _strategy(12), n_quick=12000, n_thorough=160000,
            shards_quick=4, shards_thorough=16),
        Sub("edits_long", edit_case, strategy=lambda: _strategy(40), n_quick=2000, n_thorough=80000,
            shards_quick=1, shards_thorough=8),
        Sub("edits_exhaustive", edit_case, enum=exhaustive, exhaustive=True, shards_quick=3, shards_thorough=16,
            desc="batch = every sequence of length L<=5 over alphabets of size 2,3 (quick) and 4 (thorough); every motif of "
                 "length <=3 x every start in [-3, L+3] and None for substitute/insert; every (start, end) in [-3, L+3]^2 for "
                 "delete/randomize"),
    ]

import torch, numpy, warnings, sys
sys.path.insert(0, '/repo/tests')
from tangermeme.utils import one_hot_encode, characters, random_one_hot
from tangermeme.deep_lift_shap import deep_lift_shap
from tangermeme.ism import saturation_mutagenesis
from tangermeme.marginalize import marginalize_annotations
from tangermeme.ablate import ablate_annotations
from tangermeme.variant_effect import deletion_effect, insertion_effect, substitution_effect
from tangermeme.predict import predict

torch.manual_seed(0)
class M(torch.nn.Module):
    def __init__(s):
        super().__init__()
        s.c = torch.nn.Conv1d(4, 3, 3); s.r = torch.nn.ReLU(); s.l = torch.nn.Linear(3*8, 2)
    def forward(s, X):
        return s.l(s.r(s.c(X)).flatten(1))
m = M()
def hooks(m):
    return sum(len(x._forward_hooks)+len(x._forward_pre_hooks)+len(x._backward_hooks) for x in m.modules())
X = random_one_hot((2,4,10), random_state=0).float()
print("--- C07")
print("hooks before", hooks(m))
a = deep_lift_shap(m, X, device='cpu', n_shuffles=3, random_state=0)
print("hooks after ok call", hooks(m), [k for k in m.r.__dict__ if not k.startswith('_')])
Xn = X.clone(); Xn[0,:,3] = 0
try:
    deep_lift_shap(m, Xn, device='cpu', n_shuffles=3, random_state=0)
except Exception as e:
    print("N input:", type(e).__name__, e)
print("hooks after N-failure", hooks(m))
for mod in m.modules():
    from tangermeme.deep_lift_shap import _clear_hooks
    _clear_hooks(mod)
print("cleared", hooks(m))
try:
    deep_lift_shap(m, X.to(torch.int8), device='cpu', n_shuffles=3, random_state=0)
except Exception as e:
    print("int8 input:", type(e).__name__, e)
print("hooks after int8-failure", hooks(m))
m.apply(_clear_hooks)
try:
    deep_lift_shap(m, X, device='cpu', n_shuffles=3, random_state=0, target=7)
except Exception as e:
    print("bad target:", type(e).__name__, e)
print("hooks after bad target", hooks(m))

print("--- C09 tuple")
class T(torch.nn.Module):
    def forward(s, X):
        w = torch.arange(1, X.shape[1]*X.shape[2]+1, dtype=X.dtype).reshape(1, X.shape[1], X.shape[2])
        y = (X*w).sum(dim=(1,2))[:,None]
        return y, 2*y
X5 = random_one_hot((2,4,5), random_state=1).float()
y0, yh = saturation_mutagenesis(T(), X5, device='cpu', raw_outputs=True)
class S(torch.nn.Module):
    def forward(s, X):
        return T()(X)[0]
y0s, yhs = saturation_mutagenesis(S(), X5, device='cpu', raw_outputs=True)
print(yh[0].shape, yhs.shape, torch.equal(yh[0], yhs))
try:
    r = saturation_mutagenesis(S(), X5, device='cpu', raw_outputs=True, start=1)
    print("start=1,end=-1", r[1].shape)
except Exception as e:
    print("start=1,end=-1:", type(e).__name__, str(e)[:100])
try:
    r = saturation_mutagenesis(T(), X5, device='cpu', raw_outputs=True, start=1, end=4)
    print("tuple start=1,end=4", r[1][0].shape)
except Exception as e:
    print("tuple start=1,end=4:", type(e).__name__, str(e)[:100])

print("--- C08 annotations multi-output")
ann = torch.tensor([[0,1,3],[1,0,2],[0,2,4]])
for f,name,args in [(marginalize_annotations,'marg',(T(), X5, X5, ann)), (ablate_annotations,'abl',(T(), X5, ann))]:
    try:
        b,a = f(*args, device='cpu') if name=='marg' else f(*args, device='cpu', n=2, random_state=0)
        print(name, "n_out", len(b), [x.shape for x in a])
    except Exception as e:
        print(name, type(e).__name__, e)
ann1 = ann[:1]
b,a = marginalize_annotations(T(), X5, X5, ann1, device='cpu')
print("marg 1 annotation, 2 outputs ->", len(b), len(a))

print("--- C10 deletion at edge")
ident = lambda model, X, args=None, **kw: X.clone()
X6 = one_hot_encode("ACGTAC").unsqueeze(0).float()
for left in (False, True):
    for dels in ([[0,0]], [[0,5]], [[0,2]], [[0,0],[0,5]]):
        try:
            b,a = deletion_effect(None, X6, torch.tensor(dels), left=left, func=ident)
            print(left, dels, characters(b[0]), characters(a[0]))
        except Exception as e:
            print(left, dels, type(e).__name__, str(e)[:80])
X2 = torch.stack([one_hot_encode("ACGTAC"), one_hot_encode("TTGCAA")]).float()
for left in (False, True):
    for dels in ([[0,5],[0,1]], [[0,5],[1,5]], [[0,0],[1,0]], [[0,4],[0,5],[1,2]]):
        try:
            b,a = deletion_effect(None, X2, torch.tensor(dels), left=left, func=ident)
            print(left, dels, [characters(x) for x in b], [characters(x) for x in a])
        except Exception as e:
            print(left, dels, type(e).__name__, str(e)[:80])
print("--- insertion")
for left in (False, True):
    for ins in ([[0,0,2]], [[0,5,2]], [[0,6,2]], [[0,2,2],[0,4,3]]):
        try:
            b,a = insertion_effect(None, X6, torch.tensor(ins), left=left, func=ident)
            print(left, ins, characters(b[0]), characters(a[0]))
        except Exception as e:
            print(left, ins, type(e).__name__, str(e)[:80])

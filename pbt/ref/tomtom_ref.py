"""Independent numpy reference for TOMTOM's complete-score alignment and p-values (C14).

Input is the integerised similarity matrix S[t, q] in [0, n_bins] (target column t, query column q)
and the per-column offset ("median score") `off`; everything else - alignment scores over all
relative offsets, null distribution of each offset by convolution of the pooled per-column pmfs,
p = 1 - prod_o CDF_o(best - 1), strand merge - is recomputed here from the statement.
"""
import numpy


def column_pmfs(S, n_bins, weights=None):
    ncol, nq = S.shape
    pm = numpy.zeros((nq, n_bins + 1))
    for q in range(nq):
        pm[q] = numpy.bincount(S[:, q], weights=weights, minlength=n_bins + 1)[: n_bins + 1]
        pm[q] /= (ncol if weights is None else weights.sum())
    return pm


class QueryRef:
    def __init__(self, S, off, n_bins):
        self.S = S.astype(numpy.int64)
        self.off = int(off)
        self.nq = S.shape[1]
        self.n_bins = n_bins
        self.pm = column_pmfs(self.S, n_bins)
        self.N = self.nq * n_bins + self.nq * self.off + 2
        self._cdf = {}

    def cdf(self, a, b):
        """CDF of the complete score of the alignment that covers query columns a..b (inclusive)."""
        key = (a, b)
        if key not in self._cdf:
            p = numpy.array([1.0])
            for q in range(a, b + 1):
                p = numpy.convolve(p, self.pm[q])
            u = self.nq - (b - a + 1)
            full = numpy.zeros(self.N)
            full[u * self.off:u * self.off + len(p)] = p
            self._cdf[key] = numpy.cumsum(full)
        return self._cdf[key]

    def align(self, col0, nt):
        """All alignments of this query against target columns col0..col0+nt-1.
        Returns list of (offset, overlap, score, (a, b))."""
        nq = self.nq
        cols = self.S[col0:col0 + nt]
        out = []
        for o in range(-(nq - 1), nt):          # query column q is aligned with target column q + o
            a, b = max(0, -o), min(nq - 1, nt - 1 - o)
            sc = int(sum(cols[q + o, q] for q in range(a, b + 1))) + self.off * (nq - (b - a + 1))
            out.append((o, b - a + 1, sc, (a, b)))
        return out

    def target(self, col0, nt):
        al = self.align(col0, nt)
        best = max(a[2] for a in al)
        prod = 1.0
        for (_, _, _, (a, b)) in al:
            prod *= self.cdf(a, b)[best - 1] if best - 1 >= 0 else 0.0
        return {"score": best, "p": 1.0 - prod,
                "argmax": [(o, ov) for (o, ov, sc, _) in al if sc == best]}


def merge_strands(fwd, rev):
    p = min(fwd["p"], rev["p"])
    p = 1.0 - (1.0 - p) ** 2
    if fwd["score"] > rev["score"]:
        ok = [(0, fwd)]
    elif fwd["score"] < rev["score"]:
        ok = [(1, rev)]
    else:
        ok = [(0, fwd), (1, rev)]
    return p, ok

import torch, numpy, math, time, sys
from tangermeme.tools.tomtom import tomtom, _integer_distances_and_histogram
rs = numpy.random.RandomState(int(sys.argv[1]) if len(sys.argv)>1 else 0)
def rp(w, conc=0.5):
    return rs.dirichlet(numpy.ones(4)*conc, size=w).T

def reference(Qs, Ts, n_bins=100, rc=True):
    Q = numpy.concatenate(Qs, axis=-1); Qn = (Q**2).sum(0)
    Tall = Ts + [T[::-1, ::-1] for T in Ts] if rc else list(Ts)
    T = numpy.concatenate(Tall, axis=-1); Tn = (T**2).sum(0)
    T_lens = [t.shape[-1] for t in Tall]
    ncol = T.shape[-1]
    out = numpy.zeros((len(Qs), len(Tall), 4))
    qoff = 0
    for qi, q in enumerate(Qs):
        nq = q.shape[-1]
        gamma = numpy.empty((ncol, nq)); gi = numpy.empty((ncol, nq), dtype='int8')
        f = numpy.empty((nq, n_bins+1)); med = numpy.empty(nq); mb = numpy.empty((1000,2))
        off = int(_integer_distances_and_histogram(Q, T, gamma, gi, f, med, mb, Qn, Tn, numpy.ones(ncol, dtype='int64'), qoff, nq, n_bins))
        qoff += nq
        S = gi[:, ::-1].astype(int) + off      # S[t, q] = x score in [0, n_bins]
        assert S.min() >= 0 and S.max() <= n_bins, (S.min(), S.max())
        # pooled pmf per query column
        pm = numpy.zeros((nq, n_bins+1))
        for qc in range(nq):
            pm[qc] = numpy.bincount(S[:, qc], minlength=n_bins+1) / ncol
        N = nq*n_bins + nq*off + 1
        def span_pmf(a, b):  # aligned query columns a..b inclusive
            p = numpy.array([1.0])
            for qc in range(a, b+1):
                p = numpy.convolve(p, pm[qc])
            u = nq - (b-a+1)
            full = numpy.zeros(N); full[u*off:u*off+len(p)] = p
            return full
        cache = {}
        def cdf(a,b):
            if (a,b) not in cache: cache[(a,b)] = numpy.cumsum(span_pmf(a,b))
            return cache[(a,b)]
        col0 = 0
        for ti, nt in enumerate(T_lens):
            cols = S[col0:col0+nt]   # nt x nq
            best = None
            spans = []
            for o in range(-(nq-1), nt):   # query col qc aligns target col qc+o
                a = max(0, -o); b = min(nq-1, nt-1-o)
                sc = sum(cols[qc+o, qc] for qc in range(a, b+1)) + off*(nq-(b-a+1))
                spans.append((a,b))
                if best is None or sc > best[0]: best = (sc, o, b-a+1)
            prod = 1.0
            for (a,b) in spans:
                prod *= cdf(a,b)[best[0]-1]
            out[qi, ti] = (1-prod, best[0], best[1], best[2])
            col0 += nt
    return out

Qs = [rp(rs.randint(1,12)) for _ in range(5)]
Ts = [rp(rs.randint(1,14)) for _ in range(7)]
t=time.time()
r = tomtom(Qs, Ts, n_jobs=1, n_target_bins=None, reverse_complement=False).numpy()
print("tomtom", time.time()-t)
t=time.time()
ref = reference(Qs, Ts, rc=False)
print("ref", time.time()-t)
p, s, o, ov, st = r
print("score equal:", (s == ref[:,:,1]).all(), "max |dp|", numpy.abs(p-ref[:,:,0]).max(), "max rel", (numpy.abs(p-ref[:,:,0])/numpy.maximum(ref[:,:,0],1e-300)).max())
print("offset equal frac", (o==ref[:,:,2]).mean(), "overlap equal frac", (ov==ref[:,:,3]).mean())
bad = numpy.argwhere(o!=ref[:,:,2])
print([(tuple(b), o[tuple(b)], ref[tuple(b)][2], ov[tuple(b)], ref[tuple(b)][3]) for b in bad[:5]])
print("qlens", [q.shape[-1] for q in Qs], "tlens", [t.shape[-1] for t in Ts])
print(p[:2].round(6)); print(ref[:2,:,0].round(6))

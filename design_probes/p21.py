import torch, numpy, collections, os, itertools
from tangermeme.deep_lift_shap import deep_lift_shap
from tangermeme.ism import saturation_mutagenesis
from tangermeme.ersatz import dinucleotide_shuffle, shuffle
from tangermeme.utils import random_one_hot
rs = numpy.random.RandomState(int(os.environ.get("S","0")))
torch.manual_seed(0)
stats = collections.Counter()
class WithArg(torch.nn.Module):
    def __init__(s, L):
        super().__init__()
        s.c = torch.nn.Conv1d(4, 6, 3, padding=1); s.a = torch.nn.GELU(); s.mp = torch.nn.MaxPool1d(2); s.l = torch.nn.Linear(6*(L//2), 3); s.t = torch.nn.Tanh()
    def forward(s, X, arg=None):
        h = s.l(s.mp(s.a(s.c(X))).flatten(1))
        if arg is not None: h = h + arg
        return s.t(h)
for trial in range(25):
    L = int(rs.choice([12, 20, 31])); n = rs.randint(2,5); ns = rs.randint(1,6)
    m = WithArg(L).double()
    for p in m.parameters(): p.data.mul_(2.0)
    X = random_one_hot((n,4,L), random_state=rs.randint(1e6)).double()
    use_arg = rs.rand() < 0.5
    args = (torch.randn(n, 3, dtype=torch.float64),) if use_arg else None
    reff = dinucleotide_shuffle if rs.rand()<0.6 else shuffle
    kw = dict(raw_outputs=bool(rs.rand()<0.3), hypothetical=bool(rs.rand()<0.5), target=int(rs.randint(3)))
    seed = int(rs.randint(1e6))
    try:
        base, bref = deep_lift_shap(m, X, args=args, references=reff, n_shuffles=ns, random_state=seed, device='cpu', batch_size=n*ns, return_references=True, **kw)
    except Exception as e:
        stats["EXC "+type(e).__name__+str(e)[:40]]+=1; continue
    for b in range(1, n*ns+2):
        a, r = deep_lift_shap(m, X, args=args, references=reff, n_shuffles=ns, random_state=seed, device='cpu', batch_size=b, return_references=True, **kw)
        stats["bs bitwise" if torch.equal(a, base) else ("bs close" if torch.allclose(a, base, rtol=1e-9, atol=1e-12) else "BS MISMATCH")] += 1
        if not torch.equal(r, bref): stats["REF MISMATCH"] += 1
    perm = rs.permutation(n)
    a = deep_lift_shap(m, X[perm], args=None if args is None else (args[0][perm],), references=reff, n_shuffles=ns, random_state=seed, device='cpu', batch_size=int(rs.randint(1, n*ns+1)), **kw)
    stats["perm ok" if torch.allclose(a, base[perm], rtol=1e-9, atol=1e-12) else "PERM MISMATCH"] += 1
    sub = sorted(rs.choice(n, size=rs.randint(1,n), replace=False))
    a = deep_lift_shap(m, X[sub], args=None if args is None else (args[0][sub],), references=reff, n_shuffles=ns, random_state=seed, device='cpu', batch_size=int(rs.randint(1, n*ns+1)), **kw)
    stats["subset ok" if torch.allclose(a, base[sub], rtol=1e-9, atol=1e-12) else "SUBSET MISMATCH"] += 1
# ---- C09 tensor branch + attribution formula
class P(torch.nn.Module):
    def __init__(s, A, L, T1, T2):
        super().__init__(); s.W = torch.tensor(rs.randint(1, 50, size=(T1, T2, A, L)), dtype=torch.float64); s.T2=T2
    def forward(s, X, arg=None):
        y = torch.relu(torch.einsum('bcl,tucl->btu', X, s.W) - 20)
        if arg is not None: y = y + arg[:, None, None]
        return y if s.T2 > 1 else y[:, :, 0]
for trial in range(150):
    A, L, n = rs.randint(2,6), rs.randint(1,15), rs.randint(1,4)
    T1, T2 = rs.randint(1,4), int(rs.choice([1,1,2,3]))
    m = P(A, L, T1, T2)
    X = random_one_hot((n,A,L), random_state=rs.randint(1e6)).double()
    start = rs.randint(0, L); end = rs.randint(start+1, L+1)
    if rs.rand() < 0.3: start, end = 0, -1
    e = L if end == -1 else end
    arg = torch.tensor(rs.randint(0, 9, size=(n,)), dtype=torch.float64) if rs.rand()<0.5 else None
    kw = dict(args=(arg,)) if arg is not None else {}
    try:
        y0, yh = saturation_mutagenesis(m, X, start=start, end=end, raw_outputs=True, device='cpu', batch_size=int(rs.randint(1, A*L+2)), **kw)
    except Exception as ex:
        stats["ism EXC "+type(ex).__name__+str(ex)[:50]] += 1; continue
    ok = True
    for i in range(n):
        ai = None if arg is None else arg[i:i+1]
        ok &= torch.equal(y0[i], m(X[i:i+1], ai)[0])
        for c in range(A):
            for p in range(start, e):
                Xm = X[i:i+1].clone(); Xm[0,:,p]=0; Xm[0,c,p]=1
                ok &= torch.equal(yh[i, c, p-start], m(Xm, ai)[0])
    stats["ism raw ok" if ok else "ISM RAW MISMATCH"] += 1
    target = [None, int(rs.randint(T1)), slice(0, max(1,T1-1))][rs.randint(3)]
    hyp = bool(rs.rand()<0.5)
    try:
        at = saturation_mutagenesis(m, X, start=start, end=end, target=target, hypothetical=hyp, device='cpu', **kw)
    except Exception as ex:
        stats["ism attr EXC "+type(ex).__name__+str(ex)[:60]] += 1; continue
    d = yh - y0[:, None, None]
    if target is None: pass
    elif isinstance(target, int): d = d[:, :, :, target]
    else: d = d[:, :, :, target]
    d = d - d.mean(dim=1, keepdim=True)
    while d.dim() > 3: d = d.mean(dim=-1)
    exp = d if hyp else d * X[:, :, start:e]
    stats["ism attr ok" if (at.shape == exp.shape and torch.allclose(at, exp, rtol=1e-12, atol=1e-12)) else "ISM ATTR MISMATCH %s %s" % (tuple(at.shape), tuple(exp.shape))] += 1
for k_,v in sorted(stats.items()): print(v,k_)

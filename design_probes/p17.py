import numpy, pandas, pyBigWig, os, tempfile, time, collections
from tangermeme.match import extract_matching_loci
rs = numpy.random.RandomState(int(os.environ.get("S","0")))
d = tempfile.mkdtemp()
def block(n, gc):
    return ''.join(rs.choice(list("ACGT"), p=[(1-gc)/2, gc/2, gc/2, (1-gc)/2], size=n))
stats = collections.Counter()
for trial in range(60):
    W = int(rs.choice([50, 64, 100]))
    chroms = {}
    for c in ("chr1","chr2","chr3")[:rs.randint(1,4)]:
        nb = rs.randint(10, 40)
        s = ''.join(block(W, rs.choice([0.0,0.0,0.2,0.4,0.5,0.6,0.8,1.0])) for _ in range(nb)) + block(rs.randint(0,W), 0.5)
        k = rs.randint(0, len(s)-30); s = s[:k] + "N"*rs.randint(1,30) + s[k+30:]
        chroms[c] = s
    fa = os.path.join(d, f"g{trial}.fa")
    with open(fa,"w") as f:
        for c,s in chroms.items():
            f.write(f">{c}\n"); [f.write(s[i:i+60]+"\n") for i in range(0,len(s),60)]
    n = rs.randint(5, 30)
    ch = rs.choice(list(chroms), size=n)
    st = numpy.array([rs.randint(0, len(chroms[c])-5) for c in ch]); en = st + rs.randint(5, 2*W, size=n)
    loci = pandas.DataFrame({"chrom": ch, "start": st, "end": en})
    bw_ = float(rs.choice([0.02, 0.05, 0.1, 0.06, 0.03]))
    mn = float(rs.choice([0.0, 0.1, 0.3]))
    try:
        m = extract_matching_loci(loci, fa, in_window=W, out_window=W//2, max_n_perc=mn, gc_bin_width=bw_, random_state=1, n_jobs=1)
    except Exception as e:
        stats["EXC "+type(e).__name__+" "+str(e)[:60]] += 1; continue
    # oracle
    nbins = int(1./bw_)+1
    def gcbin(seq): 
        gc = (seq.count('G')+seq.count('C'))/len(seq)
        return int((gc + bw_/2.)//bw_)
    usable = collections.Counter(); n_usable=0
    for c,s,e in zip(ch,st,en):
        mid = s+(e-s)//2; w=max(W, W//2); a,b = mid-w//2, mid+(w+1)//2
        if a<0 or b>len(chroms[c]): continue
        a,b = mid - W//2, mid+(W+1)//2
        seq = chroms[c][a:b]
        if seq.count('N')/len(seq) < mn: usable[gcbin(seq)] += 1; n_usable+=1
    masked = collections.defaultdict(set)
    for c,s,e in zip(ch,st,en):
        masked[c].update(range(s//W, e//W+1))
    elig = collections.Counter(); elig_set=set()
    for c in sorted(set(ch)):
        s = chroms[c]
        for t in range(len(s)//W):
            seq = s[t*W:(t+1)*W]
            if seq.count('N')/W <= mn and t not in masked[c]:
                elig[gcbin(seq)] += 1; elig_set.add((c,t))
    got = collections.Counter(); ok=True
    rows = set()
    for r in m.itertuples():
        t = r.start//W
        if r.start % W or r.end != r.start+W or r.end > len(chroms[r.chrom]): stats["bad tile"]+=1
        if (r.chrom,t) in rows: stats["dup"]+=1
        rows.add((r.chrom,t))
        if (r.chrom,t) not in elig_set: stats["ineligible returned"]+=1
        got[gcbin(chroms[r.chrom][r.start:r.end])]+=1
    if len(m) > n_usable: stats["more than usable"]+=1
    for b in set(usable)|set(elig)|set(got):
        if got[b] < min(usable[b], elig[b]): stats["bin underfilled"]+=1
        if got[b] > elig[b]: stats["bin overfilled"]+=1
    if len(m) < n_usable and len(m) < sum(elig.values()):
        stats["unmatched while bg remains"]+=1
        left = {b: elig[b]-got[b] for b in elig if elig[b]-got[b]>0}
        stats["  remaining bins: "+str(sorted(left))[:40]] += 1
    stats["ok trials"]+=1
for k,v in sorted(stats.items()): print(v, k)

"""C20 - greedy design never worsens the loss and takes the best substitution each step."""
import numpy
import torch
from hypothesis import strategies as st

from pbt.harness import Sub, Violation, SutRaised, require, sut, Unchanged
from pbt import gen

from tangermeme.design import greedy_substitution

PROPERTY = "C20"
LEVEL = "exploration"
RULE = ("cases = (exact integer model with 1-4 outputs, start sequence of length 8-40 over ACGT, 1-5 motifs of length 1-8 or = L, "
        "target y, output mask, tol in {0,0.5,1,...}, max_iter in {0..4,-1}, batch size; optionally a motif whose best placement is "
        "planted at the last fitting position L-m, the first, or the interior) drawn by Hypothesis. Oracle = brute-force loss of every "
        "(motif, position 0..L-m) candidate by separate forward passes: a single step must reach the brute-force minimum when that "
        "improves on the start by more than tol (and may not be worse than the start otherwise); a k-step run must equal k chained "
        "single steps; loss never increases; output is one-hot of the original length and differs from the start only inside windows "
        "that spell a motif. Non-trivial: >= 1 accepted substitution. Distinct = SHA-1 of case JSON.")
ASSUMPTIONS = ["args=None (the function cannot route extra args to its tiled candidates)",
               "when the best improvement is in (0, tol] both 'apply it and stop' and 'stop' are accepted"]

ALPHA = ["A", "C", "G", "T"]      # default; a case may carry its own ordering (channel order)

import numba  # noqa: E402
numba.set_num_threads(1)   # the tiling kernel is tiny; 16 threads x several worker processes only oversubscribe


class Net(torch.nn.Module):
    def __init__(self, L, T, seed, plant=None, alpha=ALPHA):
        super().__init__()
        rs = numpy.random.RandomState(seed)
        W = rs.randint(-4, 5, size=(T, 4, L)).astype("float64")
        b = rs.randint(-3, 4, size=(T,)).astype("float64")
        if plant is not None:
            motif, pos, bonus = plant
            for j, ch in enumerate(motif):
                W[0, list(alpha).index(ch), pos + j] += bonus
        self.W = torch.nn.Parameter(torch.tensor(W))
        self.b = torch.nn.Parameter(torch.tensor(b))

    def forward(self, X):
        return torch.relu(torch.einsum("bcl,ocl->bo", X.to(torch.float64), self.W) + self.b)


def _loss(model, X, y, mask):
    with torch.no_grad():
        yh = model(X)
    return ((y[:, mask] - yh[:, mask]) ** 2).mean(dim=1)


def greedy_case(case, ctx):
    seq = case["seq"]
    L = len(seq)
    motifs = case["motifs"]
    T = case["T"]
    plant = None
    if case.get("plant") is not None:
        mi, where = case["plant"]
        m = motifs[mi % len(motifs)]
        pos = {"last": L - len(m), "first": 0, "mid": (L - len(m)) // 2}[where]
        plant = (m, pos, case.get("bonus", 25))
    alpha = list(case.get("alphabet", "ACGT"))
    model = Net(L, T, case["seed"], plant, alpha)
    model.eval()
    X = gen.encode(seq, alpha, gen.DTYPES[case.get("dtype", "float64")]).unsqueeze(0)
    if case.get("earlier_alphabet"):
        # the same motif strings were used before in this process under another channel order
        a0 = list(case["earlier_alphabet"])
        try:
            greedy_substitution(Net(L, T, case["seed"] + 1, None, a0).eval(), gen.encode(seq, a0, torch.float64).unsqueeze(0), motifs,
                                torch.tensor([case["y"]], dtype=torch.float64), max_iter=1, device="cpu", alphabet=a0)
        except Exception:  # noqa: BLE001
            pass
        ctx.label("after_call_with_other_alphabet")
    Xc = X.clone()
    y = torch.tensor([case["y"]], dtype=torch.float64)
    mask = torch.tensor(case["mask"], dtype=torch.bool)
    tol = float(case["tol"])
    k = case["max_iter"]
    kw = dict(mask=mask, tol=tol, device="cpu", batch_size=case["batch_size"], alphabet=alpha)

    def brute(Xcur):
        cands = []
        for mo in motifs:
            o = gen.encode(mo, alpha, Xcur.dtype)
            for p in range(0, L - len(mo) + 1):
                X2 = Xcur.clone()
                X2[0, :, p:p + len(mo)] = o
                cands.append((mo, p, X2))
        losses = _loss(model, torch.cat([c[2] for c in cands]), y, mask)
        return cands, losses

    def check_step(Xcur, Xnext, tag):
        """validity of one accepted/declined greedy step"""
        l0 = _loss(model, Xcur, y, mask).item()
        l1 = _loss(model, Xnext, y, mask).item()
        cands, losses = brute(Xcur)
        lbest = losses.min().item()
        ibest = int(losses.argmin())
        eps = 1e-9 * (1 + abs(l0))
        require(l1 <= l0 + eps, "greedy-loss-increased", lambda: "%s: loss %r -> %r" % (tag, l0, l1))
        s = gen.decode_strict(Xnext[0], alpha)
        require(s is not None and len(s) == L, "greedy-not-one-hot", lambda: "%s: %s" % (tag, Xnext[0].tolist()))
        improvement = l0 - lbest
        changed = not torch.equal(Xnext.double(), Xcur.double())
        if changed:
            cur = gen.decode_strict(Xcur[0], alpha)
            diff = [i for i in range(L) if s[i] != cur[i]]
            okwin = any(diff[0] >= p and diff[-1] < p + len(mo) and s[p:p + len(mo)] == mo and
                        s[:p] == cur[:p] and s[p + len(mo):] == cur[p + len(mo):]
                        for mo in motifs for p in range(0, L - len(mo) + 1))
            require(okwin, "greedy-change-outside-motif-window", lambda: "%s: %r -> %r motifs=%r" % (tag, cur, s, motifs))
            require(abs(l1 - lbest) <= eps, "greedy-step-not-argmin",
                    lambda: "%s: seq=%r motifs=%r: step reached loss %r but candidate (%r at %d) gives %r" % (
                        tag, cur, motifs, l1, cands[ibest][0], cands[ibest][1], lbest))
        else:
            require(improvement <= tol + eps, "greedy-missed-improvement",
                    lambda: "%s: seq=%r motifs=%r: no substitution made although (%r at %d) improves the loss %r -> %r (tol %r)" % (
                        tag, gen.decode_strict(Xcur[0], alpha), motifs, cands[ibest][0], cands[ibest][1], l0, lbest, tol))
        best_positions = [(c[0], c[1]) for c, l in zip(cands, losses.tolist()) if abs(l - lbest) <= eps]
        if improvement > eps and all(p == L - len(mo) for mo, p in best_positions):
            ctx.label("best_is_last_position")
        if improvement > eps and all(p == 0 for mo, p in best_positions):
            ctx.label("best_is_first_position")
        return changed, l0 - l1

    # (i) one step
    with Unchanged("greedy-arguments-modified", motifs=motifs, y=y, mask=mask, alphabet=alpha):
        X1 = sut(greedy_substitution, model, X, motifs, y, max_iter=1, **kw)
    require(torch.equal(X, Xc), "greedy-input-modified", "")
    require(tuple(X1.shape) == (1, 4, L), "greedy-shape", lambda: str(tuple(X1.shape)))
    accepted, _ = check_step(X, X1, "single step")
    # (iii) max_iter = 0
    X0 = sut(greedy_substitution, model, X, motifs, y, max_iter=0, **kw)
    require(torch.equal(X0.double(), X.double()), "greedy-max-iter-0-changed", "")
    # (ii) k steps == chain of single steps, each of which is validated
    Xk = sut(greedy_substitution, model, X, motifs, y, max_iter=k, **kw)
    require(torch.equal(X, Xc), "greedy-input-modified", "")
    cur, steps, nacc = X, 0, 0
    limit = k if k >= 0 else 12
    while steps < limit:
        nxt = sut(greedy_substitution, model, cur, motifs, y, max_iter=1, **kw)
        ch, imp = check_step(cur, nxt, "chained step %d" % (steps + 1))
        cur = nxt
        nacc += int(ch)
        if imp <= tol:
            break
        steps += 1
    if k >= 0 or steps < limit:
        require(torch.equal(cur.double(), Xk.double()), "greedy-multi-step-differs-from-chain",
                lambda: "max_iter=%d tol=%r: run gave %r, chained single steps give %r" % (
                    k, tol, gen.decode_strict(Xk[0], alpha), gen.decode_strict(cur[0], alpha)))
    lk = _loss(model, Xk, y, mask).item()
    l0 = _loss(model, X, y, mask).item()
    require(lk <= l0 + 1e-9 * (1 + abs(l0)), "greedy-loss-increased", lambda: "run: %r -> %r" % (l0, lk))
    sk = gen.decode_strict(Xk[0], alpha)
    require(sk is not None and len(sk) == L, "greedy-not-one-hot", "run output")
    ctx.nt(accepted)
    ctx.label("accepted" if accepted else "declined", "max_iter_%d" % k)
    if nacc >= 2:
        ctx.label("multi_step_chain")
    if plant is not None:
        ctx.label("planted_" + case["plant"][1])


@st.composite
def strategy(draw):
    L = draw(st.integers(8, 40))
    seq = draw(st.text(alphabet="ACGT", min_size=L, max_size=L))
    nm = draw(st.integers(1, 5))
    motifs = []
    for _ in range(nm):
        m = draw(st.one_of(st.integers(1, 8), st.sampled_from([1, 2, L])))
        motifs.append(draw(st.text(alphabet="ACGT", min_size=m, max_size=m)))
    if nm >= 2 and draw(st.integers(0, 3)) == 0:
        motifs[draw(st.integers(1, nm - 1))] = motifs[0]          # the same motif listed twice
    T = draw(st.integers(1, 4))
    mask = [draw(st.booleans()) for _ in range(T)]
    if not any(mask):
        mask[draw(st.integers(0, T - 1))] = True
    case = {"seq": seq, "motifs": motifs, "T": T, "seed": draw(st.integers(0, 10 ** 6)),
            "y": [draw(st.integers(0, 60)) for _ in range(T)], "mask": mask,
            "tol": draw(st.sampled_from([0, 0, 0.5, 1, 5])), "max_iter": draw(st.sampled_from([0, 1, 2, 3, 4, -1])),
            "batch_size": draw(st.sampled_from([1, 3, 7, 32])), "dtype": draw(st.sampled_from(["float64", "float32", "int8"])),
            "alphabet": draw(st.sampled_from(["ACGT", "ACGT", "TGCA", "GATC"])),
            "earlier_alphabet": draw(st.sampled_from([None, None, "ACGT", "TGCA", "CATG"]))}
    if draw(st.booleans()):
        case["plant"] = [draw(st.integers(0, nm - 1)), draw(st.sampled_from(["last", "last", "first", "mid"]))]
        case["bonus"] = draw(st.sampled_from([10, 25]))
        case["y"][0] = 200
        case["mask"][0] = True
    return case


def subchecks(tier):
    return [Sub("greedy", greedy_case, strategy=strategy, n_quick=1200, n_thorough=80000, shards_quick=4)]

#!/venv/bin/python
"""Confirm a seeded change produced by an independent sub-agent and file it under /verif/seeded/.

usage: confirm_seeded.py <PROPERTY> <k> --phase suite|check|both [--check-id CNN]

phase suite (touches only the scratch worktree /tmp/wt/<PROPERTY>): demo passes on the pristine tree, patch applies,
  demo fails with the patch, the repository's test-suite with the patch fails only tests that BASELINE.json lists as
  always failing; worktree restored; result saved to MUTANTS/<k>/confirm_suite.json.
phase check (touches /repo briefly): the property's quick check is run against /repo with the patch applied, /repo is
  restored, and seeded/<PROPERTY>-<k>/{patch.diff,demo.py,meta.json} are written.
"""
import json
import os
import re
import shutil
import subprocess
import sys

pid, k = sys.argv[1], sys.argv[2]
phase = sys.argv[sys.argv.index("--phase") + 1] if "--phase" in sys.argv else "both"
check_id = sys.argv[sys.argv.index("--check-id") + 1] if "--check-id" in sys.argv else pid
wt = "/tmp/wt/%s" % pid
src = "%s/MUTANTS/%s" % (wt, k)
dst = "/verif/seeded/%s-%s" % (pid, k)
env = dict(os.environ, PYTHONPATH=wt, PYTHONDONTWRITEBYTECODE="1", OMP_NUM_THREADS="1", MKL_NUM_THREADS="1")
env.pop("TANGERMEME_VERIF", None)


def sh(cmd, cwd=wt, timeout=7200, e=env):
    p = subprocess.run(cmd, shell=True, cwd=cwd, env=e, capture_output=True, text=True, timeout=timeout)
    return p.returncode, (p.stdout + p.stderr)


def demo():
    rc, out = sh("/venv/bin/python %s/demo.py" % src)
    failed = rc != 0 or re.search(r"\bFAIL", out) is not None
    return failed, out[-600:]


def phase_suite():
    res = {"property": pid, "k": k}
    assert sh("git diff --quiet")[0] == 0, "worktree not pristine"
    f0, _ = demo()
    res["demo_on_pristine"] = "FAILS" if f0 else "passes"
    rc, out = sh("git apply %s/patch.diff" % src)
    assert rc == 0, out
    try:
        f1, o1 = demo()
        res["demo_with_patch"] = "fails" if f1 else "PASSES"
        res["demo_output_with_patch"] = o1
        cmd = "/venv/bin/python -m pytest -q -p no:cacheprovider --timeout=900 -n 8 tests 2>&1 | tail -40"
        rc, out = sh(cmd)
        failed = sorted(set(re.findall(r"^(?:FAILED|ERROR) (\S+)", out, re.M)))
        allowed = set(json.load(open("/root/.vp/BASELINE.json"))["always_fail"])
        norm = [t.replace("/", ".").replace(".py::", "::").split(" ")[0] for t in failed]
        m = re.search(r"(\d+) passed", out)
        new = [t for t in norm if t not in allowed]
        flaky_note = None
        FLAKY = "tests.tools.test_tomtom::test_tomtom_homomotifs"   # mis-shaped target -> out-of-bounds read; flaky on the pristine tree too
        if new == [FLAKY]:
            for _ in range(3):
                rc2, out2 = sh("/venv/bin/python -m pytest -q -p no:cacheprovider --timeout=900 tests/tools/test_tomtom.py -k homomotifs 2>&1 | tail -3")
                if re.search(r"1 passed", out2):
                    flaky_note = "test_tomtom_homomotifs failed in the full run but passes when re-run alone with the patch (known flaky test)"
                    new = []
                    break
        res["suite_with_patch"] = {"cmd": cmd, "passed": int(m.group(1)) if m else None, "failed": norm,
                                   "new_failures": new, "flaky_note": flaky_note}
    finally:
        sh("git checkout -- .")
    json.dump(res, open(src + "/confirm_suite.json", "w"), indent=1)
    return res


def phase_check(res):
    # the check runs against a scratch worktree of /repo's current HEAD with the patch applied (VERIF_REPO); /repo is not touched
    mwt = "/tmp/wt/_confirm_%s_%s" % (pid, k)
    subprocess.run("git -C /repo worktree remove --force %s" % mwt, shell=True, capture_output=True)
    rc, out = sh("git -C /repo worktree add --detach %s HEAD -q" % mwt, cwd="/repo", e=dict(os.environ))
    assert rc == 0, out
    try:
        rc, out = sh("git -C %s apply %s/patch.diff" % (mwt, src), cwd="/repo", e=dict(os.environ))
        assert rc == 0, "patch does not apply to current HEAD: " + out
        rc, out = sh("/venv/bin/python run_check.py %s --tier quick" % check_id, cwd="/verif", e=dict(os.environ, VERIF_REPO=mwt))
        res["quick_check"] = check_id
        res["quick_check_repo_head"] = subprocess.run("git -C /repo log --format=%h -1", shell=True, capture_output=True, text=True).stdout.strip()
        res["quick_check_exit"] = rc
        res["quick_check_lines"] = [l[:300] for l in out.splitlines()
                                    if l.startswith(("VIOLATION", "violation:", "HARNESS", check_id + " tier"))][:12]
    finally:
        subprocess.run("git -C /repo worktree remove --force %s" % mwt, shell=True, capture_output=True)
    os.makedirs(dst, exist_ok=True)
    shutil.copy(src + "/patch.diff", dst + "/patch.diff")
    shutil.copy(src + "/demo.py", dst + "/demo.py")
    meta = json.load(open(src + "/meta.json"))
    meta["confirmation"] = res
    meta["caught_by_quick_check"] = res["quick_check_exit"] == 1
    json.dump(meta, open(dst + "/meta.json", "w"), indent=1)
    ok = res["demo_on_pristine"] == "passes" and res["demo_with_patch"] == "fails" and not res["suite_with_patch"]["new_failures"]
    print(pid, k, "confirmed" if ok else "NOT-CONFIRMED", "caught" if meta["caught_by_quick_check"] else "MISSED(exit %d)" % rc,
          "suite:", res["suite_with_patch"]["passed"], "passed, new failures:", res["suite_with_patch"]["new_failures"])


if phase in ("suite", "both"):
    r = phase_suite()
    print(pid, k, "suite phase:", r["demo_on_pristine"], r["demo_with_patch"], r["suite_with_patch"]["passed"],
          r["suite_with_patch"]["new_failures"])
if phase in ("check", "both"):
    phase_check(json.load(open(src + "/confirm_suite.json")))

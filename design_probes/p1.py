import torch, numpy, warnings
from tangermeme.utils import one_hot_encode, characters, chunk, unchunk
from tangermeme.ersatz import insert, substitute, delete, randomize, shuffle, dinucleotide_shuffle, multisubstitute

X = one_hot_encode("ACGTAC").unsqueeze(0)
print("--- C01 insert at boundary")
for s in range(-1, 9):
    try:
        print(s, characters(insert(X, "GG", start=s)[0]))
    except Exception as e:
        print(s, type(e).__name__, e)
print("--- substitute boundaries")
for s in range(-1, 8):
    try:
        print(s, characters(substitute(X, "GG", start=s)[0]))
    except Exception as e:
        print(s, type(e).__name__, e)
print("--- randomize end==L")
for (s,e) in [(0,6),(0,5),(4,6),(5,6),(2,7)]:
    try:
        print(s,e, characters(randomize(X, s, e, random_state=0)[0,0]))
    except Exception as ex:
        print(s,e, type(ex).__name__, ex)
print("--- delete")
for (s,e) in [(0,6),(0,1),(5,6),(6,6),(6,7),(-1,2)]:
    try:
        print(s,e, repr(characters(delete(X, s, e)[0])) if e-s<6 else delete(X,s,e).shape)
    except Exception as ex:
        print(s,e, type(ex).__name__, ex)

print("--- C15 unchunk")
for L,size,ov in [(10,10,3),(10,10,0),(17,10,3),(24,10,3), (10,10,1), (12,10,4)]:
    x = torch.arange(L).float().reshape(1,L).repeat(2,1)
    c = chunk([x], size=size, overlap=ov)
    u = unchunk(c, lengths=[L], overlap=ov)
    print(L,size,ov,"chunks",c.shape[0], "out", u[0][0].tolist())
try:
    print(unchunk(c, overlap=ov))
except Exception as e:
    print("lengths=None:", type(e).__name__, e)

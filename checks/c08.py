"""C08 - perturbation wrappers evaluate exactly the input that each output index denotes."""
import itertools

import torch
from hypothesis import strategies as st

from pbt.harness import Sub, Violation, SutRaised, Rejected, require, sut
from pbt import gen
from pbt.models import ExactNet
from pbt import nets
from tangermeme.deep_lift_shap import deep_lift_shap

from tangermeme.marginalize import marginalize, marginalize_annotations
from tangermeme.ablate import ablate, ablate_annotations
from tangermeme.space import space
from tangermeme.product import apply_pairwise, apply_product
from tangermeme.predict import predict
from tangermeme.ersatz import shuffle, dinucleotide_shuffle

PROPERTY = "C08"
LEVEL = "exploration"
RULE = ("cases = (wrapper in {marginalize, ablate, space, marginalize_annotations, ablate_annotations, apply_pairwise, "
        "apply_product}, batch of 1-4 sequences of length 8-20, 1-3 outputs, 0-2 per-example args with distinct rows, motif form, "
        "n shuffles 1-5, 1-4 spacing rows, 1-6 annotations (!= number of outputs on purpose), product argument sets of sizes 1-4, "
        "batch sizes, func in {echo that returns an exact encoding of the (X, args) it received; predict on an exact-integer model; "
        "deep_lift_shap on a random float64 architecture with seeded references}) "
        "drawn by Hypothesis. Oracle = explicit loops over the output indices with a string model of substitute/multisubstitute and "
        "the stated-seed shuffle. Non-trivial: B >= 2 and (n >= 2 or >= 2 spacing rows or >= 2 annotations or product size > 1) with "
        "multi-output or per-example-distinct args; annotation variants need #annotations != #outputs. Distinct = SHA-1 of case JSON.")
ASSUMPTIONS = ["func returns a tensor or a flat tuple/list of tensors (no nested containers)",
               "ablate_annotations with per-example args and B > 1 is refused by the code (counted as rejected_by_sut)"]

_CUR = {"alpha": ["A", "C", "G", "T"]}


def _A():
    """alphabet (order = channel order) of the case being executed"""
    return _CUR["alpha"]


def make_echo(nout, log=None):
    """func(model, X, args=..., **kw) -> exact encoding of what it was given:
    row b = [char code of X[b] at every position ..., first value of every arg row b ...], output k = row*(k+1)+k"""

    def echo(model, X, args=None, bias=0, **kw):
        B = X.shape[0]
        w = torch.arange(1, X.shape[1] + 1, dtype=torch.float64)[None, :, None]
        row = (X.to(torch.float64) * w).sum(dim=1) + float(bias)
        if args is not None:
            for a in args:
                if a.shape[0] != B:
                    raise ValueError("echo: args leading dimension %d != %d" % (a.shape[0], B))
                row = torch.cat([row, a.to(torch.float64).reshape(B, -1)], dim=1)
        if log is not None:
            log.append((tuple(X.shape), None if args is None else len(args)))
        outs = [row * (k + 1) + k for k in range(nout)]
        return outs[0] if nout == 1 else tuple(outs)

    return echo


def echo_expected(s, argrow, nout, bias=0):
    row = [float(_A().index(c) + 1) + bias if c in _A() else 0.0 + bias for c in s] + [float(v) for a in argrow for v in a]
    return [torch.tensor([v * (k + 1) + k for v in row], dtype=torch.float64) for k in range(nout)]


class Env:
    def __init__(self, case):
        self.case = case
        self.seqs = case["seqs"]
        self.B, self.L = len(self.seqs), len(self.seqs[0])
        self.nout = case["nout"]
        self.kind = case["func"]
        self.bias = 0
        self.argvals = case.get("args") or []          # list over args of list over examples of list of ints
        self.X = gen.encode_batch(self.seqs, _A(), gen.DTYPES[case.get("dtype", "float64")])
        self.args = tuple(torch.tensor(a, dtype=torch.int64) for a in self.argvals)
        if self.kind == "predict":
            outs = [[2 + k] for k in range(self.nout)]
            self.model = ExactNet(4, self.L, outs, n_args=len(self.args), seed=case["seed"],
                                  container="tensor" if self.nout == 1 else case.get("container", "tuple"))
            self.func = predict
            self.fkw = {"device": "cpu", "batch_size": case.get("batch_size", 3)}
        elif self.kind == "dls":
            # attributions as func: float64 random architecture, generated references with an integer seed; compared at 1e-9
            self.model = nets.build(case["arch"], case["seed"])
            self.func = deep_lift_shap
            self.fkw = {"device": "cpu", "batch_size": case.get("batch_size", 3), "n_shuffles": 2, "target": 0}
            if case["op"] not in ("ablate", "ablate_annotations"):
                self.fkw["random_state"] = case.get("rs", 0)       # ablate forwards its own random_state to func
            self.X = self.X.to(torch.float64)
        else:
            self.model = torch.nn.Identity()      # the wrappers call model.to(device).eval() themselves
            self.func = make_echo(self.nout)
            self.fkw = {}

    def expect(self, s, argrow, L=None):
        """list over outputs of the 1-D expected output for sequence string s with arg rows argrow"""
        if self.kind == "echo":
            return echo_expected(s, argrow, self.nout, self.bias)
        if self.kind == "dls":
            import copy
            import warnings
            x = gen.encode(s, _A(), torch.float64).unsqueeze(0)
            with warnings.catch_warnings():
                warnings.simplefilter("ignore")
                a = deep_lift_shap(copy.deepcopy(self.model), x, device="cpu", n_shuffles=2, target=0, random_state=self.case.get("rs", 0))
            return [a[0]]
        x = gen.encode(s, _A(), torch.float64).unsqueeze(0)
        a = [torch.tensor([r], dtype=torch.int64) for r in argrow]
        y = self.model.reference(x, *a)
        return [y[0]] if isinstance(y, torch.Tensor) else [t[0] for t in y]

    def argrow(self, i):
        return [a[i] for a in self.argvals]


def _outs(y, nout, clause):
    if nout == 1:
        require(isinstance(y, torch.Tensor), clause + "-container", lambda: "expected a tensor, got %s" % type(y))
        return [y]
    require(isinstance(y, (list, tuple)) and len(y) == nout, clause + "-container",
            lambda: "expected %d outputs, got %s of length %s" % (nout, type(y).__name__, len(y) if hasattr(y, "__len__") else "?"))
    return list(y)


def _cmp(got, want, clause, where):
    for k, (g, w) in enumerate(zip(got, want)):
        require(tuple(g.shape) == tuple(w.shape), clause + "-shape", lambda: "%s output %d: shape %s want %s" % (where, k, tuple(g.shape), tuple(w.shape)))
        same = torch.equal(g.to(torch.float64), w.to(torch.float64)) or (
            g.dim() == 2 and g.shape[0] == 4 and torch.allclose(g.to(torch.float64), w.to(torch.float64), rtol=1e-9, atol=1e-12))   # (A, L) attributions
        require(same, clause + "-value",
                lambda: "%s output %d: got %s want %s" % (where, k, g.flatten().tolist()[:8], w.flatten().tolist()[:8]))


def wrapper_case(case, ctx):
    """With the echo func every wrapper is called twice on the same inputs: first with an extra keyword for func (`bias`, routed
    through **kwargs or additional_func_kwargs), then without it - a keyword of an earlier call must not leak into a later one."""
    if case["func"] == "echo" and case.get("bias"):
        first = dict(case)
        _one_call(first, ctx, bias=case["bias"], via=case.get("bias_via", "kwargs"), record=False)
        ctx.label("second_call_after_keyword_call")
    _one_call(case, ctx, bias=0, via=None, record=True)


def _one_call(case, ctx, bias, via, record):
    _CUR["alpha"] = list(case.get("alphabet", "ACGT"))
    env = Env(case)
    env.bias = bias
    op = case["op"]
    B, L, nout = env.B, env.L, env.nout
    Xc = env.X.clone()
    kw = dict(env.fkw)
    if env.args:
        kw["args"] = env.args
    afk = None
    if bias:
        if via == "kwargs":
            kw["bias"] = bias
        else:
            afk = {"bias": bias}
            kw["additional_func_kwargs"] = afk
    if record:
        ctx.label(op, "func_" + env.kind, "nout_%d" % nout, "nargs_%d" % len(env.args))
    nt = False

    if op == "marginalize":
        motif = case["motif"]
        m = len(motif)
        p = case["start"]
        pe = (L // 2 - m // 2) if p is None else p
        if case["motif_form"] == "str":
            marg = motif
            per = [motif] * B
        elif case["motif_form"] == "shared":
            marg = gen.encode(motif, _A(), env.X.dtype).unsqueeze(0)
            per = [motif] * B
        else:
            per = [motif[i:] + motif[:i] for i in range(B)]
            marg = gen.encode_batch(per, _A(), env.X.dtype)
        yb, ya = sut(marginalize, env.model, env.X, marg, start=p, alphabet=_A(), func=env.func, **kw)
        yb, ya = _outs(yb, nout, "marginalize-before"), _outs(ya, nout, "marginalize-after")
        for i in range(B):
            s = env.seqs[i]
            t = s[:pe] + per[i] + s[pe + m:]
            _cmp([y[i] for y in yb], env.expect(s, env.argrow(i)), "marginalize-before", "example %d" % i)
            _cmp([y[i] for y in ya], env.expect(t, env.argrow(i)), "marginalize-after", "example %d (motif %r at %d)" % (i, per[i], pe))
        nt = B >= 2 and (nout >= 2 or len(env.args) >= 1)

    elif op == "ablate":
        a, b, n, seed = case["start"], case["end"], case["n"], case["rs"]
        fn = shuffle if case["shuffle_fn"] == "shuffle" else dinucleotide_shuffle
        try:
            Xp = fn(env.X, start=a, end=b, n=n, random_state=seed)
        except Exception as e:  # noqa: BLE001
            raise Rejected() from e
        yb, ya = sut(ablate, env.model, env.X, a, b, n=n, shuffle_fn=fn, random_state=seed, func=env.func, **kw)
        yb, ya = _outs(yb, nout, "ablate-before"), _outs(ya, nout, "ablate-after")
        for i in range(B):
            _cmp([y[i] for y in yb], env.expect(env.seqs[i], env.argrow(i)), "ablate-before", "example %d" % i)
            for j in range(n):
                t = gen.decode_strict(Xp[i, j], _A())
                _cmp([y[i, j] for y in ya], env.expect(t, env.argrow(i)), "ablate-after", "example %d shuffle %d" % (i, j))
        nt = B >= 2 and n >= 2 and (nout >= 2 or len(env.args) >= 1)

    elif op == "space":
        motifs, rows = case["motifs"], case["spacing"]
        p = case["start"]
        yb, ya = sut(space, env.model, env.X, motifs, rows, start=p, alphabet=_A(), func=env.func, **kw)
        yb, ya = _outs(yb, nout, "space-before"), _outs(ya, nout, "space-after")
        for i in range(B):
            for r, sp in enumerate(rows):
                total = sum(len(m) for m in motifs) + sum(sp)
                q = (L // 2 - total // 2) if p is None else p
                t = env.seqs[i]
                for k, mo in enumerate(motifs):
                    t = t[:q] + mo + t[q + len(mo):]
                    q += len(mo) + (sp[k] if k < len(sp) else 0)
                _cmp([y[i, r] for y in yb], env.expect(env.seqs[i], env.argrow(i)), "space-before", "example %d row %d" % (i, r))
                _cmp([y[i, r] for y in ya], env.expect(t, env.argrow(i)), "space-after", "example %d spacing row %d %r" % (i, r, sp))
        nt = B >= 2 and len(rows) >= 2 and (nout >= 2 or len(env.args) >= 1)

    elif op == "marginalize_annotations":
        ann = case["annotations"]                     # rows (idx, start, end) into the source batch
        src = case["source"]
        Xs = gen.encode_batch(src, _A(), env.X.dtype)
        A_t = torch.tensor(ann, dtype=torch.int64)
        yb, ya = sut(marginalize_annotations, env.model, Xs, env.X, A_t, func=env.func, **kw)
        yb, ya = _outs(yb, nout, "marginalize_annotations-before"), _outs(ya, nout, "marginalize_annotations-after")
        for ai, (idx, s0, e0) in enumerate(ann):
            mo = src[idx][s0:e0]
            pe = L // 2 - len(mo) // 2
            for i in range(B):
                t = env.seqs[i][:pe] + mo + env.seqs[i][pe + len(mo):]
                _cmp([y[ai, i] for y in yb], env.expect(env.seqs[i], env.argrow(i)), "marginalize_annotations-before", "annotation %d example %d" % (ai, i))
                _cmp([y[ai, i] for y in ya], env.expect(t, env.argrow(i)), "marginalize_annotations-after", "annotation %d example %d" % (ai, i))
        for y in yb + ya:
            require(y.shape[0] == len(ann) and y.shape[1] == B, "marginalize_annotations-shape", lambda: str(tuple(y.shape)))
        nt = len(ann) >= 2 and len(ann) != nout and (nout >= 2 or len(env.args) >= 1 or B >= 2)
        if nout >= 2:
            ctx.label("annotations_gt_outputs" if len(ann) > nout else ("annotations_lt_outputs" if len(ann) < nout else "annotations_eq_outputs"))

    elif op == "ablate_annotations":
        ann = case["annotations"]
        n, seed = case["n"], case["rs"]
        A_t = torch.tensor(ann, dtype=torch.int64)
        kw2 = dict(kw)
        if env.args and B > 1:
            try:
                ablate_annotations(env.model, env.X, A_t, n=n, random_state=seed, func=env.func, **kw2)
            except Exception as e:  # noqa: BLE001 - documented limitation: args cannot be routed per annotation
                raise Rejected() from e
            raise Violation("ablate_annotations-args-silently-accepted", "per-example args with B>1 cannot be matched to single-example ablations")
        yb, ya = sut(ablate_annotations, env.model, env.X, A_t, n=n, random_state=seed, func=env.func, **kw2)
        yb, ya = _outs(yb, nout, "ablate_annotations-before"), _outs(ya, nout, "ablate_annotations-after")
        for ai, (idx, s0, e0) in enumerate(ann):
            Xp = shuffle(env.X[idx:idx + 1], start=s0, end=e0, n=n, random_state=seed)
            _cmp([y[ai, 0] for y in yb], env.expect(env.seqs[idx], env.argrow(idx)), "ablate_annotations-before", "annotation %d" % ai)
            for j in range(n):
                t = gen.decode_strict(Xp[0, j], _A())
                _cmp([y[ai, 0, j] for y in ya], env.expect(t, env.argrow(idx)), "ablate_annotations-after", "annotation %d shuffle %d" % (ai, j))
        nt = len(ann) >= 2 and len(ann) != nout and B >= 2
        if nout >= 2:
            ctx.label("annotations_gt_outputs" if len(ann) > nout else ("annotations_lt_outputs" if len(ann) < nout else "annotations_eq_outputs"))

    elif op in ("pairwise", "product"):
        pargs = case["pargs"]                        # list over args of list over rows of list of ints
        T = [torch.tensor(a, dtype=torch.int64) for a in pargs]
        bs = case["pbatch"]
        if env.kind == "predict":
            # the model was built for len(env.args) extra inputs; rebuild for the product arguments
            outs = [[2 + k] for k in range(nout)]
            env.model = ExactNet(4, L, outs, n_args=len(T), seed=case["seed"], container="tensor" if nout == 1 else case.get("container", "tuple"))
        fn = apply_pairwise if op == "pairwise" else apply_product
        pk = {k_: v_ for k_, v_ in kw.items() if k_ in ("bias", "additional_func_kwargs")}
        y = sut(fn, env.func, env.model, env.X, T, batch_size=bs, device="cpu", **pk)
        y = _outs(y, nout, op)
        sizes = [len(a) for a in pargs]
        if op == "pairwise":
            for i in range(B):
                for j in range(sizes[0]):
                    _cmp([t[i, j] for t in y], env.expect(env.seqs[i], [a[j] for a in pargs]), op, "X[%d] x row %d" % (i, j))
            nt = B >= 2 and sizes[0] >= 2
            total = B * sizes[0]
        else:
            for ii in itertools.product(range(B), *[range(s) for s in sizes]):
                _cmp([t[ii] for t in y], env.expect(env.seqs[ii[0]], [a[j] for a, j in zip(pargs, ii[1:])]), op, "index %r" % (ii,))
            total = B
            for s in sizes:
                total *= s
            nt = B >= 2 and total > B
        if total % bs:
            ctx.label(op + "_batch_not_dividing")
    else:
        raise ValueError(op)
    require(torch.equal(env.X, Xc), op + "-input-modified", "")
    for a_, vals in zip(env.args, env.argvals):
        require(torch.equal(a_, torch.tensor(vals, dtype=torch.int64)), op + "-args-modified", "an extra model argument tensor was changed")
    if afk is not None:
        require(afk == {"bias": bias}, op + "-caller-dict-modified", lambda: "additional_func_kwargs became %r" % (afk,))
    if record:
        ctx.nt(nt)


def _args(draw, B, nargs):
    out = []
    for j in range(nargs):
        w = draw(st.integers(1, 2))
        rows = [[10 * (i + 1) + j + 100 * draw(st.integers(0, 3))] + [draw(st.integers(0, 9)) for _ in range(w - 1)] for i in range(B)]
        out.append(rows)
    return out


@st.composite
def strategy(draw):
    op = draw(st.sampled_from(["marginalize", "ablate", "space", "marginalize_annotations", "ablate_annotations", "pairwise", "product"]))
    B = draw(st.integers(1, 4))
    L = draw(st.integers(8, 20))
    seqs = [draw(st.text(alphabet="ACGT", min_size=L, max_size=L)) for _ in range(B)]
    nout = draw(st.integers(1, 3))
    func = draw(st.sampled_from(["echo", "echo", "predict", "dls"]))
    if func == "dls" and op in ("pairwise", "product"):
        func = "predict"
    if func == "dls":
        nout = 1
    case = {"op": op, "seqs": seqs, "nout": nout, "func": func,
            "seed": draw(st.integers(0, 10 ** 6)), "dtype": draw(st.sampled_from(["float64", "float32", "int8"])),
            "batch_size": draw(st.integers(1, 7)), "container": draw(st.sampled_from(["tuple", "list"])),
            "alphabet": draw(st.sampled_from(["ACGT", "ACGT", "TGCA", "CATG"])),
            "bias": draw(st.sampled_from([0, 0, 3, 7])), "bias_via": draw(st.sampled_from(["kwargs", "additional_func_kwargs"]))}
    if func == "dls":
        # no max-pooling here: the expectation is computed with another batch composition than the wrapper uses, and an exact
        # max-pool tie (poly-A stretches) can be broken differently by torch's own last-bit batch dependence (DESIGN 10, C06)
        case["arch"] = draw(nets.arch_strategy(L, max_blocks=2, n_targets=2, allow_maxpool=False))
        case["rs"] = draw(st.integers(0, 10 ** 6))
        case["args"] = []
    elif op not in ("pairwise", "product"):
        case["args"] = _args(draw, B, draw(st.integers(0, 2)))
    if op == "marginalize":
        m = draw(st.integers(1, min(6, L)))
        case["motif"] = draw(st.text(alphabet="ACGT", min_size=m, max_size=m))
        case["motif_form"] = draw(st.sampled_from(["str", "shared", "per_example"]))
        case["start"] = draw(st.one_of(st.none(), st.integers(0, L - m)))
    elif op == "ablate":
        a = draw(st.integers(0, L - 4))
        case["start"], case["end"] = a, draw(st.one_of(st.integers(a + 4, L), st.just(-1)))      # -1: the documented "through the end"
        case["n"] = draw(st.integers(1, 5))
        case["rs"] = case.get("rs", draw(st.integers(0, 10 ** 6)))
        case["shuffle_fn"] = draw(st.sampled_from(["shuffle", "shuffle", "dinucleotide_shuffle"]))
        if case["shuffle_fn"] == "dinucleotide_shuffle" and (case["end"] if case["end"] > 0 else L - 1) - case["start"] < 10:
            case["n"] = 1
    elif op == "space":
        k = draw(st.integers(2, 3))
        case["motifs"] = [draw(st.text(alphabet="ACGT", min_size=1, max_size=2)) for _ in range(k)]
        S = draw(st.integers(1, 4))
        case["spacing"] = [[draw(st.integers(0, 1)) for _ in range(k - 1)] for _ in range(S)]
        tot = sum(len(m) for m in case["motifs"]) + (k - 1)
        case["start"] = draw(st.one_of(st.none(), st.integers(0, L - tot)))
    elif op == "marginalize_annotations":
        nsrc = draw(st.integers(1, 3))
        Ls = draw(st.integers(6, 16))
        case["source"] = [draw(st.text(alphabet="ACGT", min_size=Ls, max_size=Ls)) for _ in range(nsrc)]
        na = draw(st.integers(1, 6))
        ann = []
        for _ in range(na):
            s0 = draw(st.integers(0, Ls - 1))
            e0 = draw(st.integers(s0 + 1, min(Ls, s0 + min(6, L))))
            ann.append([draw(st.integers(0, nsrc - 1)), s0, e0])
        case["annotations"] = ann
    elif op == "ablate_annotations":
        na = draw(st.integers(1, 6))
        ann = []
        for _ in range(na):
            s0 = draw(st.integers(0, L - 3))
            ann.append([draw(st.integers(0, B - 1)), s0, draw(st.integers(s0 + 3, L))])
        case["annotations"] = ann
        case["n"] = draw(st.integers(1, 4))
        case["rs"] = case.get("rs", draw(st.integers(0, 10 ** 6)))
        if draw(st.integers(0, 3)) > 0:
            case["args"] = []
    else:
        na = draw(st.integers(1, 2))
        if op == "pairwise":
            sz = draw(st.integers(1, 4))
            sizes = [sz] * na
        else:
            sizes = [draw(st.integers(1, 4)) for _ in range(na)]
        case["pargs"] = [[[7 * (r + 1) + 100 * j + draw(st.integers(0, 3))] for r in range(sz)] for j, sz in enumerate(sizes)]
        case["pbatch"] = draw(st.integers(1, 9))
    return case


def subchecks(tier):
    return [Sub("wrappers", wrapper_case, strategy=strategy, n_quick=2400, n_thorough=150000, shards_quick=4)]

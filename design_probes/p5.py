import torch, numpy, math, time
t0=time.time()
from tangermeme.tools.tomtom import tomtom, _integer_distances_and_histogram
rs = numpy.random.RandomState(0)
def rp(w, conc=0.3):
    return rs.dirichlet(numpy.ones(4)*conc, size=w).T
Qs = [rp(rs.randint(3,10)) for _ in range(6)]
Ts = [rp(rs.randint(3,12)) for _ in range(10)]
r = tomtom(Qs, Ts, n_jobs=1)
print("compile+run", time.time()-t0, r.shape)
def prep(Qs, Ts, rc=True):
    Q = numpy.concatenate(Qs, axis=-1); Qn = (Q**2).sum(0)
    if rc: Ts = Ts + [T[::-1, ::-1] for T in Ts]
    T = numpy.concatenate(Ts, axis=-1); Tn = (T**2).sum(0)
    return Q, Qn, T, Tn
Q, Qn, T, Tn = prep(Qs, Ts)
for nb in (100, 127, 200):
    ov = 0; f0 = 0
    off = 0
    for qi, q in enumerate(Qs):
        nq = q.shape[-1]
        gamma = numpy.empty((T.shape[-1], nq)); gi = numpy.empty((T.shape[-1], nq), dtype='int8'); gi16 = numpy.empty((T.shape[-1], nq), dtype='int16')
        f = numpy.empty((nq, nb+1)); med = numpy.empty(nq); mb = numpy.empty((1000,2))
        o = _integer_distances_and_histogram(Q, T, gamma, gi, f, med, mb, Qn, Tn, numpy.ones(T.shape[-1], dtype='int64'), off, nq, nb)
        f2 = numpy.empty((nq, nb+1)); gamma2=numpy.empty_like(gamma)
        o2 = _integer_distances_and_histogram(Q, T, gamma2, gi16, f2, med, mb, Qn, Tn, numpy.ones(T.shape[-1], dtype='int64'), off, nq, nb)
        ov += (gi.astype('int16') != gi16).sum()
        f0 += (f[:,0] > 0).sum()
        off += nq
        print(nb, "q",qi,"offset",o, "gi range", gi16.min(), gi16.max(), "f0 mass", f[:,0].sum(), "fsum", f.sum(1)[:2])
    print("n_bins", nb, "int8 overflows", ov, "cols with f[.,0]>0", f0)

"""C16 - loaded loci, signals and motifs are exactly what the files contain."""
import os
import random
import tempfile

import numpy
import pandas
import pyBigWig
import torch
from hypothesis import strategies as st

from pbt.harness import Sub, Violation, Rejected, SutRaised, require, sut, deep_snapshot, deep_equal
from pbt import gen

from tangermeme.io import extract_loci, read_meme

PROPERTY = "C16"
LEVEL = "exploration"
RULE = ("extract_loci cases = (synthetic genome of 1-4 chromosomes with GC-biased blocks, N runs and lower-case runs written as FASTA "
        "with a generated line width; 0-2 integer-valued signal tracks written as bigWig; 1-3 locus sets of unequal length as "
        "DataFrame or BED file incl. loci at both chromosome edges; in/out windows 1-200 of both parities and either ordering; "
        "jitter 0-10; chroms filter; n_loci cap; min/max counts; file vs in-memory inputs) drawn by Hypothesis. Oracle = direct "
        "slicing of the generated strings / arrays with the round-robin interleave and midpoint arithmetic of the statement; a "
        "locus must be kept when every expanded window lies strictly inside the chromosome, must be dropped when one crosses an end, "
        "either when it only touches. read_meme cases = MEME files with 1-6 motifs in generated layouts (URL line, blank lines, "
        "trailing newline absent/single/multiple, CRLF, trailing blanks, n_motifs cap); oracle = the generated matrices. "
        "Non-trivial: >= 1 kept and >= 1 edge locus with an odd window, jitter or >= 2 sets; MEME layout other than 'URL line + blank line'.")
ASSUMPTIONS = ["signal values are small integers (exact in float32)", "motif names are unique and contain no whitespace",
               "MEME probabilities are written with 6 decimals and compared after the same rounding"]


def _genome(case):
    rng = random.Random(case["gseed"])
    chroms = {}
    for ci, L in enumerate(case["chrom_lengths"]):
        s = []
        while len(s) < L:
            blk = rng.randint(5, 60)
            mode = rng.random()
            if mode < 0.08:
                s.extend("N" * blk)
            else:
                gc = rng.choice([0.0, 0.2, 0.5, 0.8, 1.0])
                seg = [rng.choice("GC") if rng.random() < gc else rng.choice("AT") for _ in range(blk)]
                if mode > 0.85:
                    seg = [c.lower() for c in seg]
                s.extend(seg)
        chroms["chr%d" % (ci + 1)] = "".join(s[:L])
    return chroms


def _signals(case, chroms, n):
    out = []
    for k in range(n):
        rs = numpy.random.RandomState(case["gseed"] * 7 + k + 1)
        tr = {}
        for name, s in chroms.items():
            v = rs.poisson(1.5, size=len(s)).astype(numpy.float32)
            v[rs.rand(len(s)) < 0.2] = 0
            tr[name] = v
        out.append(tr)
    return out


def _write_bw(path, track, chroms):
    bw = pyBigWig.open(path, "w")
    bw.addHeader([(n, len(s)) for n, s in chroms.items()])
    for n in chroms:
        v = track[n]
        bw.addEntries(n, 0, values=v.astype(float).tolist(), span=1, step=1)
    bw.close()


def loci_case(case, ctx):
    tix_ = case.get("target_idx", 0) if case["n_signals"] > 1 else 0
    chroms = _genome(case)
    names = list(chroms)
    n_sig, n_in = case["n_signals"], case["n_in_signals"]
    sig = _signals(case, chroms, n_sig + n_in)
    sets = [[[names[c], s, e] for c, s, e in lst] for lst in case["loci"]]
    in_w, out_w, jit = case["in_window"], case["out_window"], case["jitter"]
    allowed = None if case.get("chroms") is None else [names[i] for i in case["chroms"]]
    # ---------------- oracle
    filt = [[r for r in lst if allowed is None or r[0] in allowed] for lst in sets]
    inter = []
    for pos in range(max((len(l) for l in filt), default=0)):
        for lst in filt:
            if pos < len(lst):
                inter.append(lst[pos])
    have_sig = (n_sig + n_in) > 0
    must, may, edge = [], [], 0
    exp_rows = []
    for chrom, s, e in inter:
        Lc = len(chroms[chrom])
        mid = s + (e - s) // 2
        wins = [(mid - in_w // 2 - jit, mid + in_w // 2 + jit + in_w % 2)]
        if have_sig:
            wins.append((mid - out_w // 2 - jit, mid + out_w // 2 + jit + out_w % 2))
        lo, hi = min(w[0] for w in wins), max(w[1] for w in wins)
        crossing = lo < 0 or hi > Lc
        touching = (lo == 0 or hi == Lc) and not crossing
        # the implementation tests the symmetric span of the larger half-width; anything inside that span by one more position is "strictly inside"
        strictly = lo > 0 and hi < Lc
        row = {"chrom": chrom, "mid": mid, "wins": wins, "status": "cross" if crossing else ("touch" if touching else "inside")}
        if crossing or touching:
            edge += 1
        exp_rows.append(row)
    tmp = tempfile.TemporaryDirectory(prefix="c16_")
    try:
        d = tmp.name
        fa = os.path.join(d, "g.fa")
        lw = case["line_width"]
        with open(fa, "w") as fh:
            for n, s in chroms.items():
                fh.write(">%s\n" % n)
                for k in range(0, len(s), lw):
                    fh.write(s[k:k + lw] + "\n")
        bws = []
        for k, tr in enumerate(sig):
            p = os.path.join(d, "s%d.bw" % k)
            _write_bw(p, tr, chroms)
            bws.append(p)
        loci_args = []
        for k, lst in enumerate(sets):
            df = pandas.DataFrame(lst, columns=["chrom", "start", "end"])
            if case["loci_form"][k % len(case["loci_form"])] == "bed":
                p = os.path.join(d, "l%d.bed" % k)
                df.to_csv(p, sep="\t", header=False, index=False)
                loci_args.append(p)
            else:
                loci_args.append(df)
        if len(loci_args) == 1 and case.get("single_not_list"):
            loci_args = loci_args[0]
        mem_seq = {n: gen.encode(s.upper(), "ACGT", torch.int8).numpy() for n, s in chroms.items()}
        kw = dict(in_window=in_w, out_window=out_w, max_jitter=jit, chroms=allowed, n_loci=case.get("n_loci"),
                  min_counts=case.get("min_counts"), max_counts=case.get("max_counts"))
        tix = case.get("target_idx", 0) if n_sig > 1 else 0
        if tix:
            kw["target_idx"] = tix

        def call(files):
            seqs = fa if files else mem_seq
            s_arg = None if n_sig == 0 else ([bws[k] for k in range(n_sig)] if files else [sig[k] for k in range(n_sig)])
            i_arg = None if n_in == 0 else ([bws[n_sig + k] for k in range(n_in)] if files else [sig[n_sig + k] for k in range(n_in)])
            return extract_loci(loci_args, seqs, signals=s_arg, in_signals=i_arg, **kw)

        keep_args = deep_snapshot({"loci": [a for a in (loci_args if isinstance(loci_args, list) else [loci_args]) if not isinstance(a, str)],
                                   "seq": mem_seq, "sig": sig})
        results = {}
        for files in (True, False):
            try:
                results[files] = call(files)
            except Exception as e:  # noqa: BLE001
                results[files] = e
        # expected kept rows given the SUT's freedom on touching loci: decide per row from the file-based result length by greedy matching
        for files, res in results.items():
            tag = "files" if files else "in-memory"
            if isinstance(res, Exception):
                # nothing survives -> numpy.stack([]) raises; only legitimate if no row must be kept
                def survives(r):
                    return r["status"] == "inside"
                cand = [r for r in exp_rows if survives(r)]
                if n_sig and (case.get("min_counts") is not None or case.get("max_counts") is not None):
                    cand = [r for r in cand if _passes(r, sig[tix_], case)]
                if case.get("n_loci") == 0:
                    cand = []
                require(len(cand) == 0, "extract-raised-with-keepable-loci",
                        lambda: "%s: %s: %s although %d loci lie strictly inside" % (tag, type(res).__name__, str(res)[:120], len(cand)))
                continue
            outs = [res] if isinstance(res, torch.Tensor) else list(res)
            require(len(outs) == 1 + (1 if n_sig else 0) + (1 if n_in else 0), "extract-n-outputs", lambda: "%s: %d outputs" % (tag, len(outs)))
            X = outs[0]
            nk = X.shape[0]
            # The rows returned must be explainable, in order, by the interleaved loci: a locus strictly inside MUST be present, a
            # touching one MAY be, a crossing / filtered one must not.  Rows can coincide by chance (in_window = 1 ...), so this is
            # decided by a memoised search over "optional row present / absent", not greedily.
            cands = [r for r in exp_rows if r["status"] != "cross" and not (n_sig and not _passes(r, sig[tix_], case))]
            cap = case.get("n_loci")

            def expected(r):
                w_in = r["wins"][0]
                e = [gen.encode(chroms[r["chrom"]][w_in[0]:w_in[1]].upper(), "ACGT", torch.int8)]
                if n_sig:
                    w_out = r["wins"][1]
                    e.append(torch.tensor(numpy.stack([sig[j][r["chrom"]][w_out[0]:w_out[1]] for j in range(n_sig)])))
                if n_in:
                    e.append(torch.tensor(numpy.stack([sig[n_sig + j][r["chrom"]][w_in[0]:w_in[1]] for j in range(n_in)])))
                return e

            exps = [expected(r) for r in cands]

            def matches(i, k):
                if k >= nk:
                    return False
                for o, e in zip(outs, exps[i]):
                    if tuple(o[k].shape) != tuple(e.shape) or not torch.equal(o[k].to(e.dtype), e):
                        return False
                return True

            memo = {}

            def solve(i, k):
                key = (i, k)
                if key in memo:
                    return memo[key]
                if cap is not None and k == cap:
                    res = [] if k == nk else None
                elif i == len(cands):
                    res = [] if k == nk else None
                else:
                    res = None
                    if matches(i, k):
                        sub_ = solve(i + 1, k + 1)
                        if sub_ is not None:
                            res = [i] + sub_
                    if res is None and cands[i]["status"] != "inside":
                        res = solve(i + 1, k)
                memo[key] = res
                return res

            import sys as _sys
            _sys.setrecursionlimit(max(_sys.getrecursionlimit(), 5000))
            sol = solve(0, 0)
            if sol is None:
                # describe the first point where a greedy reading breaks down
                k = 0
                msg = "%d rows returned; " % nk
                for i, r in enumerate(cands):
                    if cap is not None and k == cap:
                        break
                    if matches(i, k):
                        k += 1
                    elif r["status"] == "inside":
                        got = None if k >= nk else gen.decode(X[k].to(torch.int8), "ACGT")
                        w_in = r["wins"][0]
                        msg += "row %d should be locus %s mid %d windows %s: got %r want %r" % (
                            k, r["chrom"], r["mid"], r["wins"], None if got is None else got[:30], chroms[r["chrom"]][w_in[0]:w_in[1]].upper()[:30])
                        break
                else:
                    msg += "%d rows explained by the loci in order" % k
                raise Violation("extract-rows-not-explained-by-loci", "%s (in=%d out=%d jitter=%d n_loci=%r): %s" % (tag, in_w, out_w, jit, cap, msg))
            kept = [cands[i] for i in sol]
            results[files] = (outs, kept)
        if n_sig and case.get("rewrite_signals") and not isinstance(results[True], Exception) \
                and case.get("min_counts") is None and case.get("max_counts") is None:
            # the same path now holds other values: a later call must read the file as it is now, not what an earlier call saw
            sig2 = [{n: v + 1.0 + k for n, v in tr.items()} for k, tr in enumerate(sig)]
            for k, tr in enumerate(sig2):
                _write_bw(bws[k], tr, chroms)
            kept_rows = results[True][1]
            try:
                res2 = call(True)
            except Exception as e:  # noqa: BLE001
                raise SutRaised(e) from e
            outs2 = [res2] if isinstance(res2, torch.Tensor) else list(res2)
            # count filters see shifted sums, so only compare when no count filter is active
            if case.get("min_counts") is None and case.get("max_counts") is None:
                require(outs2[1].shape == results[True][0][1].shape, "signals-after-file-rewrite-shape", "")
                for k2, r in enumerate(kept_rows):
                    w_out = r["wins"][1]
                    ws = torch.tensor(numpy.stack([sig2[j][r["chrom"]][w_out[0]:w_out[1]] for j in range(n_sig)]))
                    require(torch.equal(outs2[1][k2].to(torch.float64), ws.to(torch.float64)), "stale-signal-after-file-rewrite",
                            lambda: "row %d: got %s want %s" % (k2, outs2[1][k2].flatten().tolist()[:6], ws.flatten().tolist()[:6]))
            ctx.label("bigwig_rewritten_between_calls")
        now_args = {"loci": [a for a in (loci_args if isinstance(loci_args, list) else [loci_args]) if not isinstance(a, str)], "seq": mem_seq, "sig": sig}
        if not case.get("rewrite_signals"):
            require(deep_equal(now_args, keep_args), "extract-inputs-modified", "the caller's locus tables / in-memory sequences / signals were changed")
        a, b = results[True], results[False]
        if not isinstance(a, Exception) and not isinstance(b, Exception):
            require(len(a[0]) == len(b[0]) and all(x.shape == y.shape and torch.equal(x.to(torch.float64), y.to(torch.float64)) for x, y in zip(a[0], b[0])),
                    "files-vs-memory-differ", "file-based and in-memory calls disagree")
            nkept = len(a[1])
        else:
            require(isinstance(a, Exception) == isinstance(b, Exception), "files-vs-memory-differ", "one input form raises, the other returns")
            raise Rejected()
    finally:
        tmp.cleanup()
    ctx.nt(nkept >= 1 and edge >= 1 and (in_w % 2 == 1 or out_w % 2 == 1 or jit > 0 or len(sets) >= 2))
    ctx.label("sets_%d" % len(sets), "signals_%d" % n_sig, "in_signals_%d" % n_in)
    if any(r["status"] == "touch" for r in exp_rows):
        ctx.label("touching_locus")
    if case.get("n_loci") is not None:
        ctx.label("n_loci_cap")
    if case.get("min_counts") is not None or case.get("max_counts") is not None:
        ctx.label("count_filter")
    if in_w < out_w:
        ctx.label("in<out")


def _passes(r, track, case):
    w = r["wins"][1]
    tot = float(track[r["chrom"]][w[0]:w[1]].sum())
    if case.get("min_counts") is not None and tot < case["min_counts"]:
        return False
    if case.get("max_counts") is not None and tot > case["max_counts"]:
        return False
    return True


@st.composite
def loci_strategy(draw):
    nchr = draw(st.integers(1, 4))
    lengths = [draw(st.integers(200, 1500)) for _ in range(nchr)]
    in_w = draw(st.one_of(st.integers(1, 40), st.integers(1, 200)))
    out_w = draw(st.one_of(st.integers(1, 40), st.integers(1, 200)))
    jit = draw(st.sampled_from([0, 0, 1, 3, 10]))
    nsets = draw(st.integers(1, 3))
    n_sig = draw(st.integers(0, 2))
    n_in = draw(st.integers(0, 1))
    half = max(in_w, out_w if (n_sig + n_in) else 0) // 2 + jit
    loci = []
    for _ in range(nsets):
        lst = []
        for _ in range(draw(st.integers(1, 8))):
            c = draw(st.integers(0, nchr - 1))
            Lc = lengths[c]
            where = draw(st.sampled_from(["mid", "mid", "left_edge", "right_edge", "any"]))
            if where == "left_edge":
                mid = half + draw(st.integers(-2, 2))
            elif where == "right_edge":
                mid = Lc - half + draw(st.integers(-3, 2))
            elif where == "any":
                mid = draw(st.integers(0, Lc - 1))
            else:
                mid = draw(st.integers(min(half + 3, Lc // 2), max(Lc - half - 3, Lc // 2)))
            width = draw(st.integers(1, 30))
            s = max(0, mid - width // 2)
            lst.append([c, s, s + width])
        loci.append(lst)
    case = {"gseed": draw(st.integers(0, 10 ** 6)), "chrom_lengths": lengths, "in_window": in_w, "out_window": out_w, "jitter": jit,
            "loci": loci, "n_signals": n_sig, "n_in_signals": n_in, "line_width": draw(st.sampled_from([60, 50, 13, 1000])),
            "loci_form": [draw(st.sampled_from(["df", "bed"])) for _ in range(nsets)], "single_not_list": draw(st.booleans()),
            "rewrite_signals": draw(st.integers(0, 3)) == 0}
    if nchr > 1 and draw(st.integers(0, 3)) == 0:
        case["chroms"] = sorted(draw(st.sets(st.integers(0, nchr - 1), min_size=1, max_size=nchr)))
    if n_sig > 1:
        case["target_idx"] = draw(st.integers(0, n_sig - 1))
    if draw(st.integers(0, 4)) == 0:
        case["n_loci"] = draw(st.integers(1, 6))
    if n_sig and draw(st.integers(0, 2)) == 0:
        case["min_counts"] = draw(st.integers(0, int(out_w * 1.5)))
    if n_sig and draw(st.integers(0, 3)) == 0:
        case["max_counts"] = draw(st.one_of(st.integers(int(out_w * 0.8), int(out_w * 3) + 1), st.just(0), st.integers(0, 3)))
    return case


# ------------------------------------------------------------------ MEME
def meme_case(case, ctx):
    nl = "\r\n" if case["crlf"] else "\n"
    motifs = case["motifs"]
    lines = ["MEME version 4", "", "ALPHABET= ACGT", "", "strands: + -", "", "Background letter frequencies", "A 0.25 C 0.25 G 0.25 T 0.25", ""]
    want = []
    for mi, m in enumerate(motifs):
        name = m["name"]
        lines.append("MOTIF %s%s" % (name, m.get("name_trail", "")))
        w = len(m["rows"])
        lines.append("letter-probability matrix: alength= 4 w= %d nsites= 20 E= 0" % w)
        mat = []
        for r in m["rows"]:
            tot = float(sum(r))
            p = [round(v / tot, 6) for v in r]
            mat.append(p)
            lines.append(m.get("row_lead", " ") + "  ".join("%.6f" % v for v in p) + m.get("row_trail", ""))
        want.append((name, torch.tensor(mat, dtype=torch.float64).T))
        last = mi == len(motifs) - 1
        if m.get("url") and not last or (last and m.get("url") and case["end"] != "none_after_matrix"):
            lines.append("URL http://example.org/%s" % name)
        if not last:
            lines.extend([""] * m.get("blank_after", 1))
    text = nl.join(lines)
    text += {"none_after_matrix": "", "none": "", "single": nl, "multiple": nl * 3}[case["end"]]
    with tempfile.TemporaryDirectory(prefix="c16m_") as d:
        p = os.path.join(d, "m.meme")
        with open(p, "w", newline="") as fh:
            fh.write(text)
        mk = {"n_motifs": case["n_motifs"]} if case.get("n_motifs") else {}
        if case.get("reread"):
            # the same path was read before, when it held other motifs, and the caller edited that earlier result
            other = text.replace("MOTIF M", "MOTIF X").replace("0.", "0.0", 1) if "MOTIF M" in text else text
            with open(p, "w", newline="") as fh:
                fh.write(other)
            try:
                first = read_meme(p, **mk)
                for k_ in list(first.keys())[:1]:
                    first[k_].mul_(0)
                    first.pop(k_)
            except Exception:  # noqa: BLE001
                pass
            with open(p, "w", newline="") as fh:
                fh.write(text)
            ctx.label("path_read_before_with_other_content")
        got = sut(read_meme, p, **mk)
    expect = want if not case.get("n_motifs") else want[:case["n_motifs"]]
    require(isinstance(got, dict), "meme-type", str(type(got)))
    for k in got.keys():
        require("\r" not in k and "\n" not in k, "meme-name-contains-line-ending", lambda: "key %r (crlf=%s)" % (k, case["crlf"]))
    gnames = [k.rstrip(" \t") for k in got.keys()]
    require(gnames == [n for n, _ in expect], "meme-motifs-missing-or-reordered",
            lambda: "file has %s (layout end=%s, blank_after=%s, url=%s), read_meme returned %s" % (
                [n for n, _ in expect], case["end"], [m.get("blank_after", 1) for m in motifs], [bool(m.get("url")) for m in motifs], gnames))
    for (n, W), (k, G) in zip(expect, got.items()):
        require(tuple(G.shape) == tuple(W.shape) and torch.equal(G.to(torch.float64), W), "meme-matrix-wrong", lambda: "motif %s" % n)
    standard = all(m.get("url") and m.get("blank_after", 1) >= 1 for m in motifs) and case["end"] in ("single", "multiple") and not case["crlf"]
    ctx.nt(not standard)
    ctx.label("end_" + case["end"], "crlf" if case["crlf"] else "lf")
    if any(m.get("blank_after", 1) == 0 and not m.get("url") for m in motifs[:-1]):
        ctx.label("no_separator_between_motifs")


@st.composite
def meme_strategy(draw):
    n = draw(st.integers(1, 6))
    motifs = []
    for i in range(n):
        w = draw(st.integers(1, 12))
        rows = [[draw(st.integers(0, 50)) + (1 if j == draw(st.integers(0, 3)) else 0) for j in range(4)] for _ in range(w)]
        rows = [r if sum(r) > 0 else [1, 1, 1, 1] for r in rows]
        motifs.append({"name": "M%d_%s" % (i, draw(st.text(alphabet="abcXYZ09.-", min_size=0, max_size=5))), "rows": rows,
                       "url": draw(st.booleans()), "blank_after": draw(st.sampled_from([0, 1, 1, 2])),
                       "row_trail": draw(st.sampled_from(["", "", " ", "\t"])), "row_lead": draw(st.sampled_from([" ", "", "  "])),
                       "name_trail": draw(st.sampled_from(["", "", " ", " alt_name"]))})
    for m in motifs:
        if m["name_trail"] == " alt_name":
            m["name_trail"] = ""          # a second name token would change the key; not part of the statement
    return {"motifs": motifs, "crlf": draw(st.booleans()), "end": draw(st.sampled_from(["none", "none_after_matrix", "single", "multiple"])),
            "n_motifs": draw(st.one_of(st.none(), st.none(), st.integers(1, n))), "reread": draw(st.integers(0, 2)) == 0}


def subchecks(tier):
    return [Sub("extract_loci", loci_case, strategy=loci_strategy, n_quick=300, n_thorough=10000, shards_quick=4),
            Sub("read_meme", meme_case, strategy=meme_strategy, n_quick=1500, n_thorough=100000, shards_quick=2)]

import numpy, math, collections, time
from fractions import Fraction
import tangermeme
from tangermeme.tools.fimo import _pwm_to_mapping
print(tangermeme.__file__)
rs = numpy.random.RandomState(0)
worst = 0; n=0; t0=time.time(); worst_w=None
for trial in range(300):
    w = rs.randint(2, 31); conc = float(rs.choice([0.1, 0.5, 1, 5]))
    pwm = rs.dirichlet(numpy.ones(4)*conc, size=w).T
    if rs.rand()<0.3: pwm[:, rs.randint(w)] = 0.25
    if rs.rand()<0.3:
        j = rs.randint(w); pwm[:, j] = 0; pwm[rs.randint(4), j] = 1
    eps = float(rs.choice([1e-6, 1e-4, 1e-2, 0.1])); bs = float(rs.choice([0.01, 0.05, 0.1, 0.5, 1.0]))
    lp = numpy.log2(pwm+eps) - math.log2(0.25)
    s, tab = _pwm_to_mapping(lp, bs)
    ilp = numpy.round(lp/bs).astype(int)
    cnt = {0: 1}
    for i in range(w):
        nxt = collections.defaultdict(int)
        for sc, c in cnt.items():
            for ch in range(4): nxt[sc + int(ilp[ch, i])] += c
        cnt = nxt
    tot = 4**w
    keys = sorted(cnt)
    acc = 0; tail = {}
    for k in reversed(keys): acc += cnt[k]; tail[k] = acc
    hi, lo = keys[-1], keys[0]
    for b in range(len(tab)):
        sc = s + b
        if sc > hi:
            assert tab[b] == -numpy.inf, (trial, b, tab[b])
        else:
            k = min(x for x in keys if x >= sc)
            exact = math.log2(tail[k]) - 2*w
            worst_here = abs(tab[b]-exact)
            if worst_here > worst: worst, worst_w = worst_here, (w, bs, eps, len(tab))
    assert not numpy.isnan(tab).any()
    ft = tab[numpy.isfinite(tab)]; assert (numpy.diff(ft) <= 1e-12).all(), numpy.diff(ft).max(); assert not numpy.isfinite(tab[len(ft):]).any()
    n+=1
print("tables", n, "worst |log2 diff|", worst, worst_w, "time", time.time()-t0)

#!/venv/bin/python
"""Prints the DESIGN.md table rows for seeded changes: tools/seeded_table.py C03c C06c ...  (reads seeded/<ID>-<k>/meta.json)"""
import ast, json, os, re, sys
def cut(t, n):
    t = t.replace('\n', ' ').replace('|', '/')
    return t if len(t) <= n else t[:n] + '…'
for d in sys.argv[1:]:
    for k in (1, 2, 3):
        if not os.path.exists('/verif/seeded/%s-%d/meta.json' % (d, k)):
            continue
        m = json.load(open('/verif/seeded/%s-%d/meta.json' % (d, k)))
        c = m['confirmation']
        lines = c.get('quick_check_lines')
        if isinstance(lines, str):
            try:
                lines = ast.literal_eval(lines)
            except Exception:
                lines = [lines]
        cl = []
        for l in lines:
            mm = re.search(r"clause=(\S+)", l)
            if mm and mm.group(1) not in cl:
                cl.append(mm.group(1))
        verdict = ("caught: " + ", ".join("`%s`" % x for x in cl[:3])) if str(c['quick_check_exit']) == '1' else "**not caught**"
        print("| %s-%d %s | %s | %s |  |" % (d, k, cut(m['summary'], 115), cut(m['needs_to_manifest'], 110), verdict))

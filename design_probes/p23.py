import numpy, math, collections, time, torch, os
from tangermeme.tools.fimo import fimo
rs = numpy.random.RandomState(int(os.environ.get("S","0")))
stats = collections.Counter()
def exact_table(lp, bs):
    w = lp.shape[1]; ilp = numpy.round(lp/bs).astype(int)
    cnt = {0:1}
    for i in range(w):
        nxt = collections.defaultdict(int)
        for sc,c in cnt.items():
            for ch in range(4): nxt[sc+int(ilp[ch,i])] += c
        cnt = nxt
    keys = sorted(cnt); acc=0; tail={}
    for k in reversed(keys): acc+=cnt[k]; tail[k]=acc
    def logp(sc):   # log2 P(score >= sc)
        ks = [x for x in keys if x >= sc]
        return (math.log2(tail[ks[0]]) - 2*w) if ks else -math.inf
    return logp, keys
comp = {'A':'T','C':'G','G':'C','T':'A','N':'N'}
for trial in range(120):
    nm = rs.randint(1,5); motifs = {}
    for k in range(nm):
        w = rs.randint(2,10); motifs[f"m{k}"] = torch.from_numpy(rs.dirichlet(numpy.ones(4)*float(rs.choice([0.2,0.5,1])), size=w).T)
    L = rs.randint(6, 40); ns = rs.randint(1,4)
    seqs = [''.join(rs.choice(list("ACGTN"), p=[.24,.24,.24,.24,.04], size=L)) for _ in range(ns)]
    # plant consensus of motif0 at a boundary
    m0 = motifs["m0"].numpy(); cons = ''.join("ACGT"[i] for i in m0.argmax(0))
    if len(cons) <= L:
        pos = int(rs.choice([0, L-len(cons), rs.randint(0, L-len(cons)+1)]))
        s = seqs[0]; cc = cons if rs.rand()<0.5 else ''.join(comp[c] for c in reversed(cons))
        seqs[0] = s[:pos]+cc+s[pos+len(cons):]
    X = torch.zeros(ns, 4, L)
    for i,s in enumerate(seqs):
        for j,ch in enumerate(s):
            if ch != 'N': X[i, "ACGT".index(ch), j] = 1
    thr = float(rs.choice([1e-1,1e-2,1e-3,1e-4])); bs = float(rs.choice([0.05,0.1,0.5])); eps = float(rs.choice([1e-4,1e-2]))
    rc = bool(rs.rand()<0.7)
    hits = fimo(motifs, X, bin_size=bs, eps=eps, threshold=thr, reverse_complement=rc)
    for k,(name,pwm) in enumerate(motifs.items()):
        got = {(int(r.sequence_name), int(r.start), r.strand): (r.score, r._8, int(r.end)) for r in hits[k].itertuples()}
        exp = {}
        amb = set()
        for strand, P in (('+', pwm.numpy()), ('-', pwm.numpy()[::-1, ::-1])):
            if strand == '-' and not rc: continue
            lp = numpy.log2(P+eps) - math.log2(0.25); w = P.shape[1]
            logp, keys = exact_table(lp, bs)
            # threshold: first integer score whose tail prob < thr, scanning from the table's "smallest"
            ilp = numpy.round(lp/bs).astype(int)
            smallest = min(numpy.cumsum(ilp.min(0)).min(), 10**9)
            largest = numpy.cumsum(ilp.max(0)).max() + w
            t_int = next((sc for sc in range(int(smallest), int(largest)+1) if logp(sc) < math.log2(thr)), None)
            if t_int is None: continue
            t = t_int*bs
            for i,sq in enumerate(seqs):
                for st in range(0, L-w+1):
                    sc = sum(lp["ACGT".index(ch), j] for j,ch in enumerate(sq[st:st+w]) if ch != 'N')
                    if abs(sc - t) <= 1e-6*(1+abs(t)): amb.add((i,st,strand)); continue
                    if sc > t:
                        b = int(sc/bs)
                        exp[(i,st,strand)] = (sc, 2.0**logp(b), st+w)
        for key in set(got)|set(exp):
            if key in amb: continue
            if key not in got: stats["MISSING hit"]+=1; continue
            if key not in exp: stats["EXTRA hit"]+=1; continue
            g,e = got[key], exp[key]
            if abs(g[0]-e[0])>1e-9 or g[2]!=e[2]: stats["FIELD mismatch"]+=1
            elif abs(g[1]-e[1]) > 1e-9*e[1]: stats["PVALUE mismatch"]+=1
            elif not g[1] < thr: stats["PVALUE not below threshold"]+=1
            else: stats["hit ok"]+=1
    stats["scans"]+=1
for k,v in sorted(stats.items()): print(v,k)

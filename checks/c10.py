"""C10 - variant-effect functions evaluate exactly the string-level edited sequences."""
import itertools

import torch
from hypothesis import strategies as st

from pbt.harness import Sub, Violation, SutRaised, require, sut, deep_equal
from pbt import gen

from tangermeme.variant_effect import substitution_effect, deletion_effect, insertion_effect
from tangermeme.predict import predict

PROPERTY = "C10"
LEVEL = "exploration"
RULE = ("cases = (batch of 1-4 sequences of length 4-14, variant kind, per-example variant lists, trim side, func) drawn by "
        "Hypothesis, plus the complete scope {B<=2, L<=6/7, every subset of <=3 deleted positions per example, both trim sides} "
        "and every single/double insertion coordinate. The tensors reaching `func` are captured with an echo func (and with "
        "predict on an exact position-coded model with a per-example extra argument) and compared with a Python string model of "
        "the edit. Non-trivial: a variant touches the trimmed edge or examples have unequal variant counts. Distinct = SHA-1 of case JSON.")
ASSUMPTIONS = ["indices are non-negative; insertion coordinates are in 0..L-1 and distinct within an example; no conflicting "
               "substitutions at one position", "at least one position survives deletion"]

ALPHA = "ACGTBDEFHIJKLMOPQRSUVWXYZ"


class _Coder(torch.nn.Module):
    """Exact integer code per position: y[b, p] = (index of the character at p) + 1 + 1000 * arg[b]."""

    def __init__(self):
        super().__init__()
        self.dummy = torch.nn.Parameter(torch.zeros(1, dtype=torch.float64))

    def forward(self, X, a=None):
        B, A, L = X.shape
        w = torch.arange(1, A + 1, dtype=torch.float64)[None, :, None]
        y = (X.to(torch.float64) * w).sum(dim=1)
        if a is not None:
            y = y + 1000.0 * a.to(torch.float64)
        return y


def _code(s, alpha, a=None):
    return [float(alpha.index(c) + 1 + (1000 * a if a is not None else 0)) for c in s]


def _echo(model, X, args=None, **kw):
    return {"X": X.clone(), "args": args, "kw": kw}


def _expected(case):
    """Returns (before_strings, after_strings) or None if the variant list cannot be honoured."""
    seqs, kind, left = case["seqs"], case["kind"], case.get("left", False)
    A = case["A"]
    alpha = ALPHA[:A]
    L = len(seqs[0])
    B = len(seqs)
    per = [[] for _ in range(B)]
    for v in case["vars"]:
        if not (0 <= v[0] < B) or not (0 <= v[1] < L):
            return None      # (an insertion at coordinate L itself is ambiguous - append or reject - and is never generated)
        if kind != "deletion" and not (0 <= v[2] < A):
            return None
        per[v[0]].append(v)
    if kind == "substitution":
        after = []
        for s, vs in zip(seqs, per):
            t = list(s)
            for _, p, c in vs:
                t[p] = alpha[c]
            after.append("".join(t))
        return list(seqs), after
    if kind == "deletion":
        dels = [sorted(set(p for _, p in vs)) for vs in per]
        mx = max(len(d) for d in dels)
        after = []
        for s, d in zip(seqs, dels):
            keep = [s[p] for p in range(L) if p not in d]
            extra = mx - len(d)
            keep = keep[extra:] if left else keep[:len(keep) - extra]
            after.append("".join(keep))
        before = [s[mx:] if left else s[:L - mx] for s in seqs]
        return before, after
    if kind == "insertion":
        after = []
        for s, vs in zip(seqs, per):
            out = []
            for p in range(L):
                for _, q, c in vs:
                    if q == p:
                        out.append(alpha[c])
                out.append(s[p])
            out = out[-L:] if left else out[:L]
            after.append("".join(out))
        return list(seqs), after
    raise ValueError(kind)


def variant_case(case, ctx):
    A = case["A"]
    alpha = ALPHA[:A]
    seqs, kind, left = case["seqs"], case["kind"], case.get("left", False)
    B, L = len(seqs), len(seqs[0])
    X = gen.encode_batch(seqs, list(alpha), gen.DTYPES[case.get("dtype", "int8")])
    Xc = X.clone()
    ncol = 2 if kind == "deletion" else 3
    V = torch.tensor(case["vars"], dtype=torch.int64).reshape(-1, ncol)
    Vc = V.clone()
    exp = _expected(case)
    fn = {"substitution": substitution_effect, "deletion": deletion_effect, "insertion": insertion_effect}[kind]
    kw = {} if kind == "substitution" else {"left": left}
    use_predict = case.get("func") == "predict"
    argv = case.get("argvals")
    args = None if argv is None else (torch.tensor(argv, dtype=torch.int64)[:, None],)
    ctx.label(kind, "func_predict" if use_predict else "func_echo")
    if exp is None:
        ctx.nt()
        ctx.label("expected_reject")
        try:
            fn(None, X, V, func=_echo, **kw)
        except Exception:  # noqa: BLE001
            return
        raise Violation(kind + "-invalid-list-accepted", "variants %r on L=%d A=%d" % (case["vars"], L, A))
    before, after = exp
    if case.get("pre_rejected"):
        # an earlier call on a batch of the same shape was rejected part-way (valid rows first, then an out-of-range one)
        bad = [list(v) for v in case["vars"][:2]] + [[0, L + 1] + ([] if kind == "deletion" else [0])]
        try:
            fn(None, X.clone(), torch.tensor(bad, dtype=torch.int64).reshape(-1, ncol), func=_echo, **kw)
        except Exception:  # noqa: BLE001
            pass
        ctx.label("after_rejected_call_of_same_shape")
    if use_predict:
        model = _Coder()
        yb, ya = sut(fn, model, X, V, args=args, func=predict, batch_size=case.get("batch_size", 3), device="cpu", **kw)
        require(torch.equal(X, Xc) and torch.equal(V, Vc), kind + "-input-modified", "")
        wb = torch.tensor([_code(s, alpha, None if argv is None else argv[i]) for i, s in enumerate(before)], dtype=torch.float64)
        wa = torch.tensor([_code(s, alpha, None if argv is None else argv[i]) for i, s in enumerate(after)], dtype=torch.float64)
        require(tuple(yb.shape) == tuple(wb.shape) and torch.equal(yb.to(torch.float64), wb), kind + "-before-wrong",
                lambda: "seqs=%r vars=%r left=%r: before codes %s want %s" % (seqs, case["vars"], left, yb.flatten().tolist(), wb.flatten().tolist()))
        require(tuple(ya.shape) == tuple(wa.shape) and torch.equal(ya.to(torch.float64), wa), kind + "-after-wrong",
                lambda: "seqs=%r vars=%r left=%r: after codes %s want %s (strings %r)" % (seqs, case["vars"], left, ya.flatten().tolist(), wa.flatten().tolist(), after))
    else:
        yb, ya = sut(fn, None, X, V, args=args, func=_echo, **kw)
        require(torch.equal(X, Xc) and torch.equal(V, Vc), kind + "-input-modified", "")
        yb2, ya2 = sut(fn, None, X, V, args=args, func=_echo, **kw)
        require(torch.equal(yb["X"], yb2["X"]) and torch.equal(ya["X"], ya2["X"]), kind + "-second-call-differs", "two identical calls edited the sequences differently")
        for tag, y, want in (("before", yb, before), ("after", ya, after)):
            T = y["X"]
            require(T.dim() == 3 and T.shape[0] == B and T.shape[1] == A and T.shape[2] == len(want[0]), kind + "-" + tag + "-shape",
                    lambda: "seqs=%r vars=%r left=%r: %s shape %s want length %d" % (seqs, case["vars"], left, tag, tuple(T.shape), len(want[0])))
            got = [gen.decode_strict(T[i], list(alpha)) for i in range(B)]
            require(got == want, kind + "-" + tag + "-wrong",
                    lambda: "seqs=%r vars=%r left=%r: %s got %r want %r" % (seqs, case["vars"], left, tag, got, want))
            require(y["args"] is args, kind + "-args-not-forwarded", "")
    counts = [sum(1 for v in case["vars"] if v[0] == b) for b in range(B)]
    edge = False
    if kind == "deletion":
        mx = max(counts)
        for b in range(B):
            extra = mx - counts[b]
            ps = [v[1] for v in case["vars"] if v[0] == b]
            # a deletion inside (or adjacent to) the part trimmed from the chosen side
            if any((p <= extra + len(ps) - 1) if left else (p >= L - extra - len(ps)) for p in ps):
                edge = True
    if kind == "insertion":
        edge = any((v[1] == 0) or (v[1] >= L - max(counts)) for v in case["vars"])
    ctx.nt(edge or len(set(counts)) > 1 or (kind == "substitution" and len(case["vars"]) > 0))
    if edge:
        ctx.label(kind + "_touches_trim_edge")
    if len(set(counts)) > 1:
        ctx.label(kind + "_unequal_counts")


def _seqs(draw, B, L, distinct):
    if distinct:
        A = max(L, 2)
        alpha = ALPHA[:A]
        return A, ["".join(alpha[(p + 3 * b) % A] for p in range(L)) for b in range(B)]
    A = draw(st.integers(2, 5))
    alpha = ALPHA[:A]
    return A, [draw(st.text(alphabet=alpha, min_size=L, max_size=L)) for _ in range(B)]


@st.composite
def strategy(draw):
    B = draw(st.integers(1, 4))
    L = draw(st.integers(4, 14))
    A, seqs = _seqs(draw, B, L, draw(st.booleans()))
    kind = draw(st.sampled_from(["substitution", "deletion", "insertion"]))
    case = {"A": A, "seqs": seqs, "kind": kind, "left": draw(st.booleans()),
            "dtype": draw(st.sampled_from(["int8", "float32", "float64"])),
            "func": draw(st.sampled_from(["echo", "echo", "predict"]))}
    if draw(st.booleans()):
        case["argvals"] = [draw(st.integers(1, 50)) for _ in range(B)]
    case["batch_size"] = draw(st.integers(1, B + 1))
    vs = []
    edge_bias = draw(st.booleans())
    pos = st.one_of(st.integers(0, L - 1), st.sampled_from([0, 1, L - 1, L - 2])) if edge_bias else st.integers(0, L - 1)
    for b in range(B):
        k = draw(st.integers(0, 3))
        ps = draw(st.lists(pos, min_size=k, max_size=k, unique=True))
        for p in ps:
            if kind == "deletion":
                vs.append([b, p])
            else:
                vs.append([b, p, draw(st.integers(0, A - 1))])
        if kind == "substitution" and ps and draw(st.integers(0, 4)) == 0:
            vs.append(list(vs[-1]))           # exact duplicate row
    if kind == "deletion" and len(vs) and draw(st.integers(0, 5)) == 0:
        vs.append(list(vs[0]))               # repeated deletion row
    vs = draw(st.permutations(vs)) if vs else vs
    bad = draw(st.integers(0, 19))
    if bad == 0:
        off = draw(st.integers(0, 2)) if kind != "insertion" else draw(st.integers(1, 3))
        vs = list(vs) + [[draw(st.integers(0, B - 1)), L + off] + ([] if kind == "deletion" else [0])]
    elif bad == 1 and kind != "deletion":
        vs = list(vs) + [[0, draw(st.integers(0, L - 1)), A + draw(st.integers(0, 1))]]
    case["vars"] = [list(v) for v in vs]
    case["pre_rejected"] = draw(st.integers(0, 3)) == 0
    return case


def del_enum(tier):
    cases = []
    for L in ((4, 5, 6) if tier == "quick" else (4, 5, 6, 7, 8)):
        A = L
        alpha = ALPHA[:A]
        subsets = [c for k in range(0, 4) for c in itertools.combinations(range(L), k)]
        s0 = "".join(alpha[p % A] for p in range(L))
        s1 = "".join(alpha[(p + 3) % A] for p in range(L))
        for left in (False, True):
            for d0 in subsets:
                cases.append({"A": A, "seqs": [s0], "kind": "deletion", "left": left, "vars": [[0, p] for p in d0], "func": "echo",
                              "pre_rejected": len(cases) % 3 == 0})
            if L <= (6 if tier == "quick" else 7):
                for d0 in subsets:
                    for d1 in subsets:
                        cases.append({"A": A, "seqs": [s0, s1], "kind": "deletion", "left": left,
                                      "vars": [[0, p] for p in d0] + [[1, p] for p in d1], "func": "echo"})
    return cases


def ins_enum(tier):
    cases = []
    for L in ((4, 5, 6) if tier == "quick" else (4, 5, 6, 7, 8)):
        A = L
        alpha = ALPHA[:A]
        s0 = "".join(alpha[p % A] for p in range(L))
        s1 = "".join(alpha[(p + 3) % A] for p in range(L))
        opts = [c for k in range(0, 3) for c in itertools.combinations(range(L), k)]
        for left in (False, True):
            for i0 in opts:
                for i1 in opts:
                    vs = [[0, p, (p + 1) % A] for p in i0] + [[1, p, (p + 2) % A] for p in i1]
                    cases.append({"A": A, "seqs": [s0, s1], "kind": "insertion", "left": left, "vars": vs, "func": "echo"})
    return cases


def subchecks(tier):
    return [
        Sub("variants_random", variant_case, strategy=strategy, n_quick=6000, n_thorough=200000, shards_quick=4),
        Sub("deletions_exhaustive", variant_case, enum=del_enum, exhaustive=True, shards_quick=3, shards_thorough=16,
            desc="B=1 and B=2, all-distinct-character sequences of length 4..6 (quick) / 4..8 (thorough; pairs to 7): every subset of <=3 "
                 "deleted positions per example, both trim sides"),
        Sub("insertions_exhaustive", variant_case, enum=ins_enum, exhaustive=True, shards_quick=2, shards_thorough=8,
            desc="B=2, length 4..6 (quick) / 4..8 (thorough): every set of <=2 distinct insertion coordinates per example, both trim sides"),
    ]

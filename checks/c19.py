"""C19 - called seqlets are well-formed spans whose reported statistics match the input."""
import numpy
import torch
from hypothesis import strategies as st

from pbt.harness import Sub, Violation, Rejected, SutRaised, require, sut

from tangermeme.seqlet import recursive_seqlets, tfmodisco_seqlets

PROPERTY = "C19"
LEVEL = "exploration"
RULE = ("cases = (attribution track of 1-6 examples x 40-600 positions: dyadic-rational noise of both signs from a generated seed "
        "plus 0-10 planted positive/negative bumps, some touching positions 0..3 and the end; recursive_seqlets: threshold "
        "0.001-0.2, min/max length 3-30, additional_flanks 0-5, torch/numpy, float32/float64; tfmodisco_seqlets: window 5-21, flank "
        "0-10, target_fdr) drawn by Hypothesis. Oracle = validity predicate over every returned row: span inside its example, valid "
        "example index, p <= threshold, table sorted by p, attribution = sum of the input over [start, end) (exact for float64 "
        "dyadic input, 1e-4 relative for float32), pre-flank length within [min, max] (clipped rows: the interval of possible "
        "pre-flank lengths must intersect [min, max]); TF-MoDISco rows span window+2*flank, report the central-window sum and keep "
        "starts at least int(window/2)+flank apart; the input tensor is unchanged. Non-trivial: >= 1 seqlet returned.")
ASSUMPTIONS = ["degenerate tracks on which the callers raise (no negative spans, empty isotonic fit) are counted as rejected_by_sut",
               "the docstring's 'flanks only widen the flank-0 calls' relation is NOT asserted (it does not hold and C19 does not state it)"]


def _track(case):
    rs = numpy.random.RandomState(case["seed"])
    n, L = case["n"], case["L"]
    X = numpy.round(rs.randn(n, L) * case["noise"] * 64) / 64
    for (i, p, w, sgn, amp) in case["bumps"]:
        i, p, w = i % n, min(p, L - 1), max(1, min(w, L))
        p = min(p, L - w)
        X[i, p:p + w] += sgn * numpy.round(rs.uniform(1, 3, size=w) * amp * 64) / 64
    return X


def recursive_case(case, ctx):
    X = _track(case).astype(numpy.float64 if case["dtype"] == "float64" else numpy.float32)
    n, L = X.shape
    arg = torch.from_numpy(X.copy()) if case["form"] == "torch" else X.copy()
    keep = arg.clone() if case["form"] == "torch" else arg.copy()
    thr, mn, mx, fl = case["threshold"], case["min_len"], case["max_len"], case["flanks"]
    try:
        df = recursive_seqlets(arg, threshold=thr, min_seqlet_len=mn, max_seqlet_len=mx, additional_flanks=fl)
    except ZeroDivisionError as e:
        raise Rejected() from e
    except Exception as e:  # noqa: BLE001
        raise SutRaised(e) from e
    same = torch.equal(arg, keep) if case["form"] == "torch" else numpy.array_equal(arg, keep)
    require(same, "recursive-input-modified", "")
    require(list(df.columns) == ["example_idx", "start", "end", "attribution", "p-value"], "recursive-columns", lambda: str(list(df.columns)))
    ps = df["p-value"].tolist()
    require(ps == sorted(ps), "recursive-not-sorted-by-p", lambda: str(ps[:10]))
    X64 = X.astype(numpy.float64)
    desc = "thr=%g min=%d max=%d flanks=%d L=%d dtype=%s" % (thr, mn, mx, fl, L, case["dtype"])
    clipped = False
    for r in df.itertuples(index=False):
        e, s, t, attr, p = int(r[0]), int(r[1]), int(r[2]), float(r[3]), float(r[4])
        require(0 <= e < n, "recursive-example-index", lambda: "%s: %d" % (desc, e))
        require(0 <= s < t <= L, "recursive-span-outside-example", lambda: "%s: [%d, %d)" % (desc, s, t))
        require(p <= thr, "recursive-p-above-threshold", lambda: "%s: p=%g" % (desc, p))
        want = X64[e, s:t].sum()
        tol = 1e-9 * (1 + abs(want)) if case["dtype"] == "float64" else 1e-4 * (1 + numpy.abs(X64[e, :t]).sum())
        require(abs(attr - want) <= tol, "recursive-attribution-is-not-the-span-sum",
                lambda: "%s: example %d span [%d, %d): reported %.6g, sum of the input over the span %.6g" % (desc, e, s, t, attr, want))
        ln = t - s
        if fl == 0:
            require(mn <= ln <= mx, "recursive-length-out-of-range", lambda: "%s: length %d" % (desc, ln))
        else:
            at_edge = (s == 0) or (t == L)
            if at_edge:
                clipped = True
                lo, hi = ln - 2 * fl, ln - fl if not (s == 0 and t == L) else ln
                require(hi >= mn and lo <= mx, "recursive-length-out-of-range", lambda: "%s: clipped span length %d" % (desc, ln))
            else:
                require(mn <= ln - 2 * fl <= mx, "recursive-length-out-of-range", lambda: "%s: length %d - 2 flanks" % (desc, ln))
    if case.get("reuse_buffer"):
        # the caller refills the same buffer with other values and calls again: the second table must describe the new contents
        if case["form"] == "torch":
            arg.copy_(torch.flip(arg, dims=(-1,)) * -1)
            X2 = arg.numpy().astype(numpy.float64)
        else:
            arg[:] = -arg[:, ::-1].copy()
            X2 = arg.astype(numpy.float64)
        try:
            df2 = recursive_seqlets(arg, threshold=thr, min_seqlet_len=mn, max_seqlet_len=mx, additional_flanks=fl)
        except ZeroDivisionError as e:
            raise Rejected() from e
        for r in df2.itertuples(index=False):
            e, s_, t_, attr = int(r[0]), int(r[1]), int(r[2]), float(r[3])
            require(0 <= e < n and 0 <= s_ < t_ <= L, "recursive-span-outside-example", lambda: "second call on the refilled buffer: [%d, %d)" % (s_, t_))
            want = X2[e, s_:t_].sum()
            tol = 1e-9 * (1 + abs(want)) if case["dtype"] == "float64" else 1e-4 * (1 + numpy.abs(X2[e, :t_]).sum())
            require(abs(attr - want) <= tol, "recursive-second-call-describes-old-contents",
                    lambda: "%s: after refilling the same buffer, span [%d, %d) reports %.6g but the buffer now sums to %.6g there" % (desc, s_, t_, attr, want))
        ctx.label("buffer_refilled_between_calls")
    ctx.nt(len(df) >= 1)
    if clipped:
        ctx.label("flank_clipped_at_edge")
    if any(int(r[1]) == 0 for r in df.itertuples(index=False)):
        ctx.label("seqlet_starts_at_0")
    if any(int(r[2]) == L for r in df.itertuples(index=False)):
        ctx.label("seqlet_ends_at_L")
    ctx.label("flanks=%d" % min(fl, 1), case["dtype"], case["form"])
    ctx.extra["inner"] = len(df)


def tfmodisco_case(case, ctx):
    X = torch.from_numpy(_track(case)).to(torch.float64 if case["dtype"] == "float64" else torch.float32)
    n, L = X.shape
    Xc = X.clone()
    w, fl = case["window"], case["flank"]
    try:
        df = tfmodisco_seqlets(X, window_size=w, flank=fl, target_fdr=case["fdr"])
    except Exception as e:  # noqa: BLE001 - degenerate tracks (empty null side, empty isotonic fit)
        require(torch.equal(X, Xc), "tfmodisco-input-modified", "by a failing call")
        raise Rejected() from e
    require(torch.equal(X, Xc), "tfmodisco-input-modified", "")
    sup = int(0.5 * w) + fl
    desc = "window=%d flank=%d L=%d" % (w, fl, L)
    X64 = X.to(torch.float64)
    for r in df.itertuples(index=False):
        e, s, t, attr = int(r[0]), int(r[1]), int(r[2]), float(r[3])
        require(0 <= e < n, "tfmodisco-example-index", lambda: str(e))
        require(t - s == w + 2 * fl and 0 <= s and t <= L, "tfmodisco-bad-span", lambda: "%s: [%d, %d)" % (desc, s, t))
        want = X64[e, s + fl:t - fl].sum().item()
        require(abs(attr - want) <= 1e-4 * (1 + abs(want)), "tfmodisco-attribution-is-not-the-window-sum",
                lambda: "%s: example %d [%d, %d): reported %.6g, central window sum %.6g" % (desc, e, s, t, attr, want))
    for e, g in df.groupby("example_idx"):
        st_ = sorted(int(v) for v in g["start"])
        require(all(b - a >= sup for a, b in zip(st_, st_[1:])), "tfmodisco-seqlets-closer-than-suppression-radius",
                lambda: "%s: example %d starts %s (radius %d)" % (desc, e, st_[:10], sup))
    ctx.nt(len(df) >= 1)
    ctx.extra["inner"] = len(df)


@st.composite
def track_strategy(draw, tf=False):
    n = draw(st.integers(1, 6))
    L = draw(st.one_of(st.integers(40, 120), st.integers(40, 600))) if not tf else draw(st.integers(100, 600))
    bumps = []
    for _ in range(draw(st.integers(0, 10))):
        w = draw(st.integers(3, 16))
        where = draw(st.sampled_from(["any", "any", "start", "end"]))
        p = {"any": draw(st.integers(0, L - 1)), "start": draw(st.integers(0, 3)), "end": L - w - draw(st.integers(0, 2))}[where]
        bumps.append([draw(st.integers(0, n - 1)), max(0, p), w, draw(st.sampled_from([-1, 1])), draw(st.sampled_from([0.5, 1.0, 2.0]))])
    return {"seed": draw(st.integers(0, 10 ** 6)), "n": n, "L": L, "noise": draw(st.sampled_from([0.05, 0.1, 0.3])), "bumps": bumps,
            "dtype": draw(st.sampled_from(["float64", "float64", "float32"]))}


@st.composite
def recursive_strategy(draw):
    case = draw(track_strategy())
    mn = draw(st.integers(3, 10))
    case.update({"threshold": draw(st.sampled_from([0.001, 0.01, 0.01, 0.05, 0.2])), "min_len": mn,
                 "max_len": mn + draw(st.integers(2, 20)), "flanks": draw(st.sampled_from([0, 0, 1, 2, 3, 5])),
                 "form": draw(st.sampled_from(["torch", "numpy"])), "reuse_buffer": draw(st.integers(0, 2)) == 0})
    return case


@st.composite
def tfmodisco_strategy(draw):
    case = draw(track_strategy(tf=True))
    case["dtype"] = "float32"           # the TF-MoDISco caller only accepts float32 tracks (torch.quantile dtype check)
    case.update({"window": draw(st.sampled_from([4, 5, 6, 9, 10, 15, 20, 21])), "flank": draw(st.sampled_from([0, 1, 2, 3, 5, 10])),
                 "fdr": draw(st.sampled_from([0.05, 0.2, 0.5]))})
    return case


def subchecks(tier):
    return [Sub("recursive_seqlets", recursive_case, strategy=recursive_strategy, n_quick=1200, n_thorough=60000, shards_quick=4),
            Sub("tfmodisco_seqlets", tfmodisco_case, strategy=tfmodisco_strategy, n_quick=400, n_thorough=18000, shards_quick=2)]

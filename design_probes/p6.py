import torch, numpy, os, tempfile
from tangermeme.io import read_meme
from tangermeme.annotate import pairwise_annotations_spacing
from tangermeme.seqlet import recursive_seqlets
from tangermeme.design import greedy_substitution
from tangermeme.utils import one_hot_encode, characters

hdr = "MEME version 4\n\nALPHABET= ACGT\n\nstrands: + -\n\nBackground letter frequencies\nA 0.25 C 0.25 G 0.25 T 0.25\n\n"
def motif(name, w, url=True, blank=True):
    s = f"MOTIF {name}\nletter-probability matrix: alength= 4 w= {w} nsites= 20 E= 0\n"
    for i in range(w):
        s += " 0.250000  0.250000  0.250000  0.250000\n"
    if url: s += f"URL http://x/{name}\n"
    if blank: s += "\n"
    return s
d = tempfile.mkdtemp()
def test(txt, label):
    p = os.path.join(d, "a.meme"); open(p, "w", newline='').write(txt)
    print(label, list(read_meme(p).keys()))
test(hdr + motif("a",3) + motif("b",2), "url+blank:")
test(hdr + motif("a",3,url=False) + motif("b",2,url=False), "blank only:")
test(hdr + motif("a",3,url=False,blank=False) + motif("b",2,url=False,blank=False) + motif("c",2,url=False,blank=False), "no separators:")
test((hdr + motif("a",3,url=False) + motif("b",2,url=False)).rstrip("\n"), "no trailing newline:")
test((hdr + motif("a",3,url=False) + motif("b",2,url=False)).rstrip("\n")+"\n", "single trailing newline:")

print("--- C18 spacing")
X = torch.tensor([[0,0,0,5],[0,1,8,12]])  # gap 3
print(pairwise_annotations_spacing(X, max_distance=5)[0,1])
for X in ([[0,0,0,5],[0,1,10,12]], [[0,0,0,5],[0,1,3,8]], [[0,0,0,5],[0,1,0,5]], [[0,0,0,5],[0,1,11,12]]):
    try:
        print(X, pairwise_annotations_spacing(torch.tensor(X), max_distance=5)[0,1].tolist())
    except Exception as e:
        print(X, type(e).__name__, e)

print("--- C19 recursive seqlets with flank at start")
rs = numpy.random.RandomState(0)
X = rs.randn(2, 200)*0.1
X[0, 2:9] += 3.0
X[1, 100:108] -= 3.0
for fl in (0, 3):
    s = recursive_seqlets(torch.from_numpy(X), additional_flanks=fl)
    for r in s.itertuples():
        true = X[r.example_idx, r.start:r.end].sum()
        print(fl, r.example_idx, r.start, r.end, round(r.attribution,4), round(true,4), r._5)

print("--- C20 greedy last position")
class Lin(torch.nn.Module):
    def __init__(s, L):
        super().__init__()
        s.w = torch.nn.Parameter(torch.zeros(4, L)); 
    def forward(s, X):
        return (X*s.w).sum(dim=(1,2))[:,None]
L=8
m = Lin(L)
with torch.no_grad():
    m.w[1, L-1] = 5.0; m.w[1, L-2]=5.0   # 'CC' at last position scores 10
X = one_hot_encode("A"*L).unsqueeze(0).float()
out = greedy_substitution(m, X, ["CC"], y=torch.tensor([[10.0]]), device='cpu', max_iter=1)
print(characters(out[0]))
with torch.no_grad():
    m.w[:] = 0; m.w[1, 3]=5.0; m.w[1,4]=5.0
out = greedy_substitution(m, X, ["CC"], y=torch.tensor([[10.0]]), device='cpu', max_iter=1)
print(characters(out[0]))

"""C11 - FIMO p-value tables are the exact tail distribution of the discretised score."""
import math

import numpy
from hypothesis import strategies as st

from pbt.harness import Sub, Violation, Skip, require, sut

import numba  # noqa: E402
numba.set_num_threads(1)
from pbt.ref import fimo_ref as R

from tangermeme.tools import fimo as F

PROPERTY = "C11"
LEVEL = "exploration"
RULE = ("cases = (PWM of width 1-30 given as integer column weights: Dirichlet-like, coarse grids, exact zeros, uniform and one-hot "
        "columns; bin_size in 0.01..1; eps in 1e-6..0.1) drawn by Hypothesis. Oracle = exact number of sequences per discretised "
        "integer score by int64 convolution (exact since 4^w <= 2^60), cross-checked by brute force over all 4^w sequences for "
        "w <= 7; table[b] must equal log2(#sequences with score >= smallest+b / 4^w) within 1e-9, be -inf exactly above the highest "
        "attainable score, 0 at and below the lowest, non-increasing, never NaN, never > 0. Entries within 1e-9 of a rounding tie "
        "are skipped. Non-trivial: some column has >= 2 distinct integer scores and the table has >= 3 distinct finite values.")
ASSUMPTIONS = ["only the numba/LLVM build present in this sandbox is exercised",
               "log-odds are built exactly as fimo() builds them: log2(pwm + eps) - log2(0.25)"]


def _pwm(case):
    cols = numpy.array(case["cols"], dtype=numpy.float64)          # (w, 4)
    return (cols / cols.sum(axis=1, keepdims=True)).T.copy()       # (4, w)


def table_case(case, ctx):
    pwm = _pwm(case)
    w = pwm.shape[1]
    bin_size, eps = case["bin_size"], case["eps"]
    lp = R.log_pwm(pwm, eps)
    ip, tie = R.int_scores(lp, bin_size)
    if tie:
        raise Skip()
    smallest, table = sut(F._pwm_to_mapping, numpy.ascontiguousarray(lp), float(bin_size))
    smallest = int(smallest)
    table = numpy.array(table, dtype=numpy.float64)
    lo, counts = R.exact_counts(ip)
    if w <= 7:
        lo2, c2 = R.brute_counts(ip)
        if lo2 != lo or len(c2) != len(counts) or not (c2 == counts).all():
            raise RuntimeError("oracle self-check failed: DP and brute force disagree")
        ctx.label("bruteforce_crosschecked")
    hi = lo + len(counts) - 1
    desc = "w=%d bin=%g eps=%g cols=%s" % (w, bin_size, eps, case["cols"][:4])
    require(smallest <= lo, "table-lowest-score-not-representable", lambda: "%s: smallest=%d but lowest attainable score %d" % (desc, smallest, lo))
    require(smallest + len(table) - 1 >= hi, "table-highest-score-not-representable",
            lambda: "%s: table covers up to %d but highest attainable score is %d" % (desc, smallest + len(table) - 1, hi))
    want = R.exact_log2_tail(lo, counts, w, smallest, len(table))
    nan = numpy.isnan(table)
    require(not nan.any(), "table-nan", lambda: "%s: NaN at bins %s (highest attainable bin %d, table length %d)" % (
        desc, numpy.nonzero(nan)[0][:5].tolist(), hi - smallest, len(table)))
    require((table <= 1e-12).all(), "table-p-greater-than-1", lambda: "%s: max log2 p = %r at bin %d" % (desc, table.max(), int(table.argmax())))
    d = numpy.diff(table)
    require(not (d > 1e-12).any(), "table-not-monotone", lambda: "%s: increases at bin %d" % (desc, int(numpy.nonzero(d > 1e-12)[0][0])))
    inf_w = numpy.isneginf(want)
    bad_inf = numpy.nonzero(inf_w & ~numpy.isneginf(table))[0]
    require(len(bad_inf) == 0, "table-nonzero-above-highest-score", lambda: "%s: bin %d (score %d > highest %d) has log2 p = %r" % (
        desc, int(bad_inf[0]), smallest + int(bad_inf[0]), hi, table[bad_inf[0]]))
    fin = ~inf_w
    diff = numpy.abs(table[fin] - want[fin])
    if len(diff) and not (diff <= 1e-9).all():
        k = int(numpy.nonzero(fin)[0][int(numpy.nanargmax(numpy.where(numpy.isnan(diff), numpy.inf, diff)))])
        raise Violation("table-wrong-tail-probability", "%s: bin %d (score %d): log2 p = %r, exact %r (2^diff = %.6g); lowest %d highest %d" % (
            desc, k, smallest + k, table[k], want[k], 2 ** (table[k] - want[k]), lo, hi))
    distinct_cols = any(len(set(ip[:, i].tolist())) >= 2 for i in range(w))
    nfin = len(set(numpy.round(want[fin], 9).tolist()))
    ctx.nt(distinct_cols and nfin >= 3)
    ctx.label("w=1" if w == 1 else ("w<=7" if w <= 7 else ("w<=15" if w <= 15 else "w<=30")))
    ctx.label("bins<100" if len(table) < 100 else ("bins<2000" if len(table) < 2000 else "bins>=2000"))


@st.composite
def column(draw, mode):
    if mode == "uniform":
        return [1, 1, 1, 1]
    if mode == "onehot":
        c = [0, 0, 0, 0]
        c[draw(st.integers(0, 3))] = 1
        return c
    if mode == "coarse":
        c = [draw(st.integers(0, 4)) for _ in range(4)]
    elif mode == "zeros":
        c = [draw(st.integers(0, 10)) * draw(st.integers(0, 1)) for _ in range(4)]
    else:
        c = [draw(st.integers(1, 10 ** 6)) for _ in range(4)]
    if sum(c) == 0:
        c[draw(st.integers(0, 3))] = 1
    return c


def strategy(maxw, fine_maxw):
    @st.composite
    def f(draw):
        w = draw(st.one_of(st.integers(1, 7), st.integers(1, maxw)))
        style = draw(st.sampled_from(["mixed", "mixed", "coarse", "fine", "zeros"]))
        cols = []
        for _ in range(w):
            mode = style if style != "mixed" else draw(st.sampled_from(["uniform", "onehot", "coarse", "zeros", "fine", "fine"]))
            cols.append(draw(column(mode)))
        bins = [1.0, 0.5, 0.25, 0.1, 0.1, 0.05] + ([0.02, 0.01] if w <= fine_maxw else [])
        return {"cols": cols, "bin_size": draw(st.sampled_from(bins)), "eps": draw(st.sampled_from([1e-6, 1e-4, 1e-4, 1e-3, 0.01, 0.1]))}
    return f()


def fimo_pvalue_case(case, ctx):
    """The second observation point of C11: the p-value column of fimo().  Every sequence of the motif's length is scanned (they
    are all reported with a threshold above 1) and each reported p-value must be the exact tail of its discretised score - also
    when an earlier scan in the same process used the same motif with another pseudocount or bin size."""
    import itertools
    import torch
    pwm = _pwm(case)
    w = pwm.shape[1]
    bin_size, eps = case["bin_size"], case["eps"]
    seqs = ["".join(t) for t in itertools.product("ACGT", repeat=w)]
    X = torch.zeros((len(seqs), 4, w), dtype=torch.float64)
    for i, s_ in enumerate(seqs):
        for j, ch in enumerate(s_):
            X[i, "ACGT".index(ch), j] = 1
    motifs = {"m": torch.tensor(pwm)}
    if case.get("pre"):
        try:
            F.fimo(motifs, X, bin_size=case["pre"][0], eps=case["pre"][1], threshold=2.0, reverse_complement=False)
        except Exception:  # noqa: BLE001
            pass
        ctx.label("after_scan_with_other_settings")
    hits = sut(F.fimo, motifs, X, bin_size=bin_size, eps=eps, threshold=2.0, reverse_complement=False)[0]
    lp = R.log_pwm(pwm, eps)
    ip, tie = R.int_scores(lp, bin_size)
    if tie:
        raise Skip()
    lo, counts = R.exact_counts(ip)
    tail = numpy.cumsum(counts[::-1])[::-1]
    total = 4.0 ** w
    n_checked = 0
    above = False
    for row in hits.itertuples(index=False):
        si, score, p = int(row[2]), float(row[6]), float(row[7])
        q = score / bin_size
        if abs(q - round(q)) < 1e-9:
            continue
        ok = False
        for b in {int(numpy.trunc(q)), int(numpy.floor(q))}:
            k = b - lo
            want = 1.0 if k <= 0 else (0.0 if k >= len(tail) else tail[k] / total)
            if abs(p - want) <= 1e-9 * max(want, 1e-300) + 1e-15:
                ok = True
        if not ok:
            k = int(numpy.trunc(q)) - lo
            raise Violation("fimo-pvalue-column", "w=%d bin=%g eps=%g cols=%s: sequence %s score %.6g reported p=%.9g, exact tail of its bin %.9g" % (
                w, bin_size, eps, case["cols"], seqs[si], score, p, 1.0 if k <= 0 else (0.0 if k >= len(tail) else tail[k] / total)))
        n_checked += 1
        if int(numpy.trunc(q)) - lo >= len(tail):
            above = True
    if above:
        ctx.label("window_scores_above_highest_attainable_bin")      # its p-value must be exactly 0
    ctx.extra["inner"] = n_checked
    ctx.nt(n_checked >= 2 and len(set(ip.flatten().tolist())) >= 2)


@st.composite
def rounddown_column(draw, bin_size, eps):
    """A column whose best character's log-odds lies 0.3-0.49 of a bin above a bin centre: it is rounded DOWN.  Several such
    columns put the real score of the consensus window one or more bins above the highest attainable discretised score - the
    bins of the table whose p-value must be exactly zero."""
    lo_k, hi_k = int(math.ceil(0.85 / bin_size)), int(math.floor(1.95 / bin_size)) - 1
    k = draw(st.integers(lo_k, hi_k)) if hi_k >= lo_k else 1
    v = (k + draw(st.sampled_from([0.3, 0.35, 0.4, 0.45, 0.49]))) * bin_size
    pmax = min(0.97, max(0.45, 0.25 * 2.0 ** v - eps))
    cmax = int(round(pmax * 10 ** 6))
    rem = 10 ** 6 - cmax
    a = rem // 3 - draw(st.integers(0, rem // 6))
    b = rem // 3 - draw(st.integers(0, rem // 6))
    others = [a, b, rem - a - b]
    pos = draw(st.integers(0, 3))
    return others[:pos] + [cmax] + others[pos:]


@st.composite
def fimo_strategy(draw):
    bin_size, eps = draw(st.sampled_from([1.0, 0.5, 0.1, 0.1, 0.05])), draw(st.sampled_from([1e-4, 1e-4, 1e-3, 0.01, 0.1]))
    cols = []
    if draw(st.integers(0, 3)) == 0:
        w = draw(st.integers(3, 6))
        for _ in range(w):
            cols.append(draw(rounddown_column(bin_size, eps)) if draw(st.integers(0, 4)) else draw(column("fine")))
    else:
        w = draw(st.integers(1, 5))
        for _ in range(w):
            cols.append(draw(column(draw(st.sampled_from(["uniform", "onehot", "coarse", "zeros", "fine", "fine"])))))
    case = {"cols": cols, "bin_size": bin_size, "eps": eps}
    if draw(st.booleans()):
        case["pre"] = [draw(st.sampled_from([case["bin_size"], case["bin_size"], 0.25])), draw(st.sampled_from([1e-4, 1e-3, 0.01, 0.1, 0.05]))]
    return case


def subchecks(tier):
    return [Sub("pvalue_table", table_case, strategy=lambda: strategy(30, 12) if tier == "quick" else strategy(30, 30),
                n_quick=800, n_thorough=90000, shards_quick=4),
            Sub("fimo_pvalue_column", fimo_pvalue_case, strategy=fimo_strategy, n_quick=300, n_thorough=18000, shards_quick=2)]

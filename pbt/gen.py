"""Shared case generators and independent encode/decode helpers.

Everything a strategy produces is plain JSON (ints, strings, lists, dicts); the check
function turns it into tensors.  Encoding/decoding here deliberately does not use
tangermeme.utils so that the oracle side is independent of the code under test.
"""
import numpy
import torch
from hypothesis import strategies as st

LETTERS = "ACGTBD"

DTYPES = {"int8": torch.int8, "uint8": torch.uint8, "int16": torch.int16, "int32": torch.int32,
          "int64": torch.int64, "float16": torch.float16, "float32": torch.float32,
          "float64": torch.float64, "bool": torch.bool}


def encode(s, alphabet, dtype=torch.int8):
    """String -> (A, L) one-hot tensor; characters outside `alphabet` become zero columns."""
    A = len(alphabet)
    x = numpy.zeros((A, len(s)), dtype=numpy.int8)
    idx = {c: i for i, c in enumerate(alphabet)}
    for p, c in enumerate(s):
        if c in idx:
            x[idx[c], p] = 1
    return torch.from_numpy(x).type(dtype)


def encode_batch(seqs, alphabet, dtype=torch.int8):
    return torch.stack([encode(s, alphabet, dtype) for s in seqs]) if len(seqs) else \
        torch.zeros((0, len(alphabet), 0), dtype=dtype)


def decode(x, alphabet, zero="N"):
    """(A, L) tensor -> string; requires every column to be one-hot or all-zero.
    Returns None if some column is neither (so callers can flag 'not a valid one-hot')."""
    x = x.detach().cpu()
    if x.dim() != 2 or x.shape[0] != len(alphabet):
        return None
    xn = x.to(torch.float64).numpy()
    if not numpy.isin(xn, (0.0, 1.0)).all():
        return None
    sums = xn.sum(axis=0)
    out = []
    for p in range(xn.shape[1]):
        if sums[p] == 1:
            out.append(alphabet[int(numpy.nonzero(xn[:, p])[0][0])])
        elif sums[p] == 0:
            out.append(zero)
        else:
            return None
    return "".join(out)


def decode_strict(x, alphabet):
    """As decode, but all-zero columns are invalid too."""
    s = decode(x, alphabet, zero="\0")
    if s is None or "\0" in s:
        return None
    return s


def seq_strategy(alphabet, min_size, max_size):
    return st.text(alphabet=alphabet, min_size=min_size, max_size=max_size)


def batch_strategy(A_range=(2, 6), B_range=(1, 4), L_range=(1, 12)):
    """-> {"A": int, "seqs": [str,...]} with all sequences the same length."""
    @st.composite
    def f(draw):
        A = draw(st.integers(*A_range))
        B = draw(st.integers(*B_range))
        L = draw(st.integers(*L_range))
        alpha = LETTERS[:A]
        seqs = [draw(st.text(alphabet=alpha, min_size=L, max_size=L)) for _ in range(B)]
        return {"A": A, "seqs": seqs}
    return f()

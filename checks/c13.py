"""C13 - TOMTOM results are independent of threads, co-processed queries and their order."""
import numba
import numpy
import pandas
import torch
from hypothesis import strategies as st

from pbt.harness import Sub, Violation, Rejected, SutRaised, require, sut

from tangermeme.tools.tomtom import tomtom
from tangermeme.annotate import annotate_seqlets

PROPERTY = "C13"
LEVEL = "exploration"
RULE = ("cases = (3-12 queries of mixed lengths 1-25, 3-15 targets, reverse complement on/off, column hashing on/off, a list of "
        "schedules: thread count, numba parallel chunk size, and a permutation / duplication / subset of the query list) drawn by "
        "Hypothesis. Oracle: baseline = every query processed alone with one thread; each schedule must return, per query, "
        "bit-identical (p, score, offset, overlap, strand). n_nearest must return exactly the n smallest p-values of the full row in "
        "ascending order with distinct indices and the fields of those targets; annotate_seqlets must agree with tomtom on the "
        "extracted seqlets and be invariant to seqlet order. Non-trivial: in some schedule a thread processes >= 2 queries of "
        "different lengths, a shorter one after a longer one (computed from the contiguous static chunking).")
ASSUMPTIONS = ["the harness chooses thread count, chunk size and query order but not the interleaving of threads: a genuine data "
               "race is only caught statistically (schedules are repeated in the thorough tier)",
               "thread counts up to NUMBA_NUM_THREADS (4 in the quick tier, 16 in the thorough tier)"]

MAXT = numba.config.NUMBA_NUM_THREADS


def _pwm(cols, dtype="float64"):
    c = numpy.array(cols, dtype=numpy.float64)
    m = numpy.ascontiguousarray((c / c.sum(axis=1, keepdims=True)).T)
    if dtype == "int8":       # a one-hot query as produced by one_hot_encode (arg-max of each column)
        oh = numpy.zeros(m.shape, dtype=numpy.int8)
        oh[m.argmax(axis=0), numpy.arange(m.shape[1])] = 1
        return oh
    return m.astype(dtype)


def _run(Qs, Ts, case, n_jobs, chunk=0, n_nearest=None):
    numba.set_parallel_chunksize(chunk)
    try:
        Qc, Tc = [q.copy() for q in Qs], [t.copy() for t in Ts]
        if case.get("as_torch"):
            Qc, Tc = [torch.from_numpy(q) for q in Qc], [torch.from_numpy(t) for t in Tc]      # both containers are documented to accept tensors
        out = tomtom(Qc, Tc, n_nearest=n_nearest, n_score_bins=case.get("n_score_bins", 100),
                     n_target_bins=case.get("n_target_bins"), reverse_complement=case["rc"], n_jobs=n_jobs)
        if case.get("as_torch"):
            Qc, Tc = [q.numpy() for q in Qc], [t.numpy() for t in Tc]
        if not (len(Qc) == len(Qs) and len(Tc) == len(Ts) and all(numpy.array_equal(a, b) and a.dtype == b.dtype for a, b in zip(Qc + Tc, list(Qs) + list(Ts)))):
            raise Violation("tomtom-inputs-modified", "the query / target arrays (or lists) handed to tomtom were changed")
        return out
    finally:
        numba.set_parallel_chunksize(0)


def _static_chunks(n_items, n_threads, chunk):
    """Which loop indices share a thread, assuming contiguous static partitioning (chunk == 0) or round-robin chunks."""
    groups = [[] for _ in range(n_threads)]
    if chunk <= 0:
        base, extra = divmod(n_items, n_threads)
        i = 0
        for t in range(n_threads):
            k = base + (1 if t < extra else 0)
            groups[t] = list(range(i, i + k))
            i += k
    else:
        for b, start in enumerate(range(0, n_items, chunk)):
            groups[b % n_threads].extend(range(start, min(start + chunk, n_items)))
    return groups


def schedule_case(case, ctx):
    qd = case.get("query_dtypes") or ["float64"] * len(case["queries"])
    Qs = [_pwm(c, d) for c, d in zip(case["queries"], qd)]
    if len(set(qd)) > 1:
        ctx.label("mixed_query_dtypes")
    Ts = [_pwm(c) for c in case["targets"]]
    nT = len(Ts)
    try:
        base = [_run([q], Ts, case, 1) for q in Qs]        # each query alone, one thread
    except Exception as e:  # noqa: BLE001 - degenerate pools are refused (see C14)
        raise Rejected() from e
    nt_flag = False
    for sch in case["schedules"]:
        order = sch["order"]
        nj = min(sch["n_jobs"], MAXT)
        reps = sch.get("repeat", 1)
        for _ in range(reps):
            res = sut(_run, [Qs[i] for i in order], Ts, case, nj, sch.get("chunk", 0))
            require(tuple(res.shape) == (5, len(order), nT), "schedule-shape", lambda: str(tuple(res.shape)))
            for pos, qi in enumerate(order):
                if not torch.equal(res[:, pos], base[qi][:, 0]):
                    field = ["p-value", "score", "offset", "overlap", "strand"][int((res[:, pos] != base[qi][:, 0]).any(dim=1).nonzero()[0])]
                    tj = int((res[:, pos] != base[qi][:, 0]).any(dim=0).nonzero()[0])
                    raise Violation("schedule-changes-result", "query %d (len %d) at position %d of order %s with n_jobs=%d chunk=%d: %s for target %d is %r, alone it is %r" % (
                        qi, Qs[qi].shape[1], pos, order, nj, sch.get("chunk", 0), field, tj,
                        res[:, pos, tj].tolist(), base[qi][:, 0, tj].tolist()))
        for grp in _static_chunks(len(order), nj, sch.get("chunk", 0)):
            lens = [Qs[order[i]].shape[1] for i in grp]
            if any(lens[i] > lens[j] for i in range(len(lens)) for j in range(i + 1, len(lens))):
                nt_flag = True
        ctx.label("n_jobs=%d" % nj, "chunk=%d" % sch.get("chunk", 0))
        if len(set(order)) < len(order):
            ctx.label("duplicated_query")
        if len(order) < len(Qs):
            ctx.label("subset")
    if case.get("strand_history"):
        # a forward-only scan of a set that already holds both orientations, right after a two-strand scan of the plain set with the
        # same queries: same shapes of every work buffer, so anything the first call leaves behind would be picked up by the second
        both = Ts + [numpy.ascontiguousarray(t[::-1, ::-1]) for t in Ts]
        c2 = dict(case, rc=False)
        try:
            base2 = [_run([q], both, c2, 1) for q in Qs]
        except Exception as e:  # noqa: BLE001
            raise Rejected() from e
        nj = min(case["schedules"][0]["n_jobs"], MAXT)
        sut(_run, Qs, Ts, dict(case, rc=True), nj)
        res2 = sut(_run, Qs, both, c2, nj)
        for qi in range(len(Qs)):
            require(torch.equal(res2[:, qi], base2[qi][:, 0]), "result-depends-on-earlier-call",
                    lambda: "query %d: forward-only scan after a two-strand scan gives %s, alone it gives %s" % (
                        qi, res2[:, qi].tolist(), base2[qi][:, 0].tolist()))
        ctx.label("forward_scan_after_two_strand_scan")
    ctx.nt(nt_flag)
    ctx.label("rc" if case["rc"] else "no_rc", "hashing" if case.get("n_target_bins") else "no_hashing")


def nearest_case(case, ctx):
    Qs = [_pwm(c) for c in case["queries"]]
    for h in case.get("homopolymer_queries", []):
        q = numpy.zeros((4, h[1]))
        q[h[0]] = 1.0
        Qs.append(q)
    Ts = [_pwm(c) for c in case["targets"]]
    nT = len(Ts)
    nn = min(case["n_nearest"], nT)
    nj = min(case["n_jobs"], MAXT)
    try:
        full = _run(Qs, Ts, case, 1)
    except Exception as e:  # noqa: BLE001
        raise Rejected() from e
    res = sut(_run, Qs, Ts, case, nj, 0, nn)
    require(tuple(res.shape) == (6, len(Qs), nn), "n_nearest-shape", lambda: str(tuple(res.shape)))
    for qi in range(len(Qs)):
        want = torch.sort(full[0, qi]).values[:nn]
        require(torch.equal(res[0, qi], want), "n_nearest-not-the-smallest-p-values",
                lambda: "query %d: returned p %s, the %d smallest of the full row are %s" % (qi, res[0, qi].tolist(), nn, want.tolist()))
        idx = res[5, qi].to(torch.int64)
        require(len(set(idx.tolist())) == nn and int(idx.min()) >= 0 and int(idx.max()) < nT, "n_nearest-indices",
                lambda: "query %d: indices %s" % (qi, idx.tolist()))
        for k in range(nn):
            require(torch.equal(res[:5, qi, k], full[:, qi, idx[k]]), "n_nearest-fields-of-other-target",
                    lambda: "query %d rank %d index %d: %s vs full row %s" % (qi, k, int(idx[k]), res[:5, qi, k].tolist(), full[:, qi, idx[k]].tolist()))
    ctx.nt(nn < nT and len(Qs) >= 2)
    ctx.label("n_nearest=%s" % ("1" if nn == 1 else ("all" if nn == nT else "some")))
    if bool((full[0] == 1.0).any()):
        ctx.label("row_contains_p_exactly_1")


def annotate_case(case, ctx):
    Ts = [_pwm(c) for c in case["targets"]]
    motifs = {"m%d" % i: torch.tensor(t) for i, t in enumerate(Ts)}
    L = case["L"]
    g = torch.Generator().manual_seed(case["seed"])
    X = torch.rand((case["B"], 4, L), generator=g, dtype=torch.float64)
    if case.get("same_argmax") and case["B"] >= 2:
        # example 1 has the same arg-max character everywhere as example 0 but different values (and some all-zero columns):
        # seqlets must be told apart by their values, not by their consensus string
        am = X[0].argmax(dim=0)
        X[1] = 0.05 * torch.rand((4, L), generator=g, dtype=torch.float64)
        X[1, am, torch.arange(L)] = 0.3 + 0.6 * torch.rand(L, generator=g, dtype=torch.float64)
        ctx.label("examples_share_argmax")
    rows = case["seqlets"]
    df = pandas.DataFrame(rows, columns=["example_idx", "start", "end"])
    if case.get("extra_cols"):
        df["attribution"] = [0.5 * i for i in range(len(rows))]        # recursive_seqlets frames carry further columns
        df["p_value"] = 0.001
    if case.get("index_offset"):
        df.index = df.index + case["index_offset"]                       # a frame filtered out of a longer one keeps its labels
        ctx.label("frame_with_non_default_index")
    nn = min(case["n_nearest"], len(Ts))
    kw = dict(n_score_bins=100, n_target_bins=None, reverse_complement=case["rc"])
    try:
        idxs, pvals = annotate_seqlets(X, df, motifs, n_nearest=nn, n_jobs=min(case["n_jobs"], MAXT), **kw)
    except Exception as e:  # noqa: BLE001
        try:
            tomtom([X[e_, :, s:e2].numpy() for e_, s, e2 in rows], Ts, n_jobs=1, **kw)
        except Exception:
            raise Rejected() from e
        raise SutRaised(e) from e
    qs = [X[e_, :, s:e2].numpy().copy() for e_, s, e2 in rows]
    full = tomtom(qs, Ts, n_jobs=1, **kw)
    require(tuple(idxs.shape) == (len(rows), nn) and tuple(pvals.shape) == (len(rows), nn), "annotate-shape", lambda: "%s %s" % (tuple(idxs.shape), tuple(pvals.shape)))
    for i in range(len(rows)):
        want = torch.sort(full[0, i]).values[:nn]
        require(torch.equal(pvals[i], want), "annotate-p-values", lambda: "seqlet %d: %s vs %s" % (i, pvals[i].tolist(), want.tolist()))
        for k in range(nn):
            require(full[0, i, int(idxs[i, k])] == pvals[i, k], "annotate-index", lambda: "seqlet %d rank %d" % (i, k))
    perm = case["perm"]
    if case.get("frame") == "iloc":
        df2 = df.iloc[perm]                 # reordered / filtered with pandas: row labels travel with the rows
        ctx.label("reordered_with_pandas_keeping_labels")
    else:
        df2 = pandas.DataFrame([rows[j] for j in perm], columns=["example_idx", "start", "end"])
    idxs2, pvals2 = sut(annotate_seqlets, X, df2, motifs, n_nearest=nn, n_jobs=min(case["n_jobs2"], MAXT), **kw)
    for pos, j in enumerate(perm):
        require(torch.equal(pvals2[pos], pvals[j]), "annotate-depends-on-seqlet-order", lambda: "seqlet %d" % j)
    ctx.nt(len(rows) >= 2)


# ------------------------------------------------------------------ generators
@st.composite
def pwm_cols(draw, w):
    return [[draw(st.integers(1, 1000)) for _ in range(4)] for _ in range(w)]


@st.composite
def pools(draw, minq=3, maxq=12):
    nQ = draw(st.integers(minq, maxq))
    nT = draw(st.integers(3, 15))
    qlen = st.one_of(st.integers(1, 6), st.integers(1, 25), st.sampled_from([1, 2, 25]))
    queries = [draw(pwm_cols(draw(qlen))) for _ in range(nQ)]
    targets = [draw(pwm_cols(draw(st.integers(1, 25)))) for _ in range(nT)]
    return queries, targets


@st.composite
def schedule_strategy(draw):
    queries, targets = draw(pools())
    nQ = len(queries)
    jobs = [j for j in (1, 2, 3, 4, 5, 8, 16) if j <= MAXT]
    schedules = []
    for _ in range(draw(st.integers(2, 4))):
        kind = draw(st.sampled_from(["perm", "perm", "subset", "dup", "sorted_desc"]))
        if kind == "perm":
            order = list(draw(st.permutations(list(range(nQ)))))
        elif kind == "subset":
            order = list(draw(st.permutations(list(range(nQ)))))[: draw(st.integers(1, nQ))]
        elif kind == "dup":
            order = [draw(st.integers(0, nQ - 1)) for _ in range(draw(st.integers(2, nQ + 3)))]
        else:
            order = sorted(range(nQ), key=lambda i: -len(queries[i]))      # long queries first: shorter ones reuse their scratch
        nj = draw(st.sampled_from(jobs))
        schedules.append({"order": order, "n_jobs": nj, "chunk": draw(st.sampled_from([0, 0, 1, 2])),
                          # a genuine data race shows only in some interleavings: multi-thread schedules are repeated (more in thorough)
                          "repeat": 1 if nj == 1 else draw(st.sampled_from([1, 2] if MAXT <= 4 else [2, 5, 10]))})
    case = {"queries": queries, "targets": targets, "rc": draw(st.booleans()), "n_target_bins": draw(st.sampled_from([None, None, 100])),
            "schedules": schedules}
    if draw(st.integers(0, 2)) == 0:
        # query lists are often heterogeneous (one-hot int8 seqlets next to float PWMs): a query's result may not depend on its neighbours' dtype
        case["query_dtypes"] = [draw(st.sampled_from(["int8", "float32", "float64", "float64"])) for _ in range(nQ)]
    case["strand_history"] = draw(st.integers(0, 2)) == 0
    case["as_torch"] = draw(st.integers(0, 3)) == 0
    return case


@st.composite
def nearest_strategy(draw):
    queries, targets = draw(pools(1, 6))
    case = {"queries": queries, "targets": targets, "rc": draw(st.booleans()), "n_target_bins": draw(st.sampled_from([None, 100])),
            "n_nearest": draw(st.one_of(st.integers(1, len(targets)), st.just(len(targets)), st.just(max(1, len(targets) - 1)))),
            "n_jobs": draw(st.sampled_from([1, 2, 4]))}
    if draw(st.booleans()):
        # hopeless matches: after the strand merge 1-(1-p)^2 their p-value is exactly 1.0, the value a "nothing found yet" sentinel would use
        case["homopolymer_queries"] = [[draw(st.integers(0, 3)), draw(st.sampled_from([12, 20, 25]))] for _ in range(draw(st.integers(1, 2)))]
        case["rc"] = draw(st.sampled_from([True, True, True, False]))
        case["n_nearest"] = draw(st.sampled_from([len(targets), len(targets), max(1, len(targets) - 1), max(1, len(targets) // 2)]))
    return case


@st.composite
def annotate_strategy(draw):
    _, targets = draw(pools(1, 1))
    B = draw(st.integers(1, 3))
    L = draw(st.integers(20, 60))
    n = draw(st.integers(1, 8))
    rows = []
    for _ in range(n):
        s = draw(st.integers(0, L - 3))
        rows.append([draw(st.integers(0, B - 1)), s, draw(st.integers(s + 2, min(L, s + 25)))])
        if B >= 2 and draw(st.booleans()):
            rows.append([1 - rows[-1][0] if rows[-1][0] in (0, 1) else 0, rows[-1][1], rows[-1][2]])   # same span in the sibling example
    n = len(rows)
    return {"targets": targets, "B": B, "L": L, "seed": draw(st.integers(0, 10 ** 6)), "seqlets": rows, "rc": draw(st.booleans()),
            "frame": draw(st.sampled_from(["fresh", "iloc"])), "index_offset": draw(st.sampled_from([0, 0, 1, 7])), "extra_cols": draw(st.booleans()),
            "n_nearest": draw(st.integers(1, 3)), "n_jobs": draw(st.sampled_from([1, 2, 4])), "n_jobs2": draw(st.sampled_from([1, 3])),
            "perm": list(draw(st.permutations(list(range(n))))), "same_argmax": draw(st.booleans())}


def subchecks(tier):
    return [Sub("schedules", schedule_case, strategy=schedule_strategy, n_quick=60, n_thorough=1500, shards_quick=2, shards_thorough=8, budget_quick=240.0),
            Sub("n_nearest", nearest_case, strategy=nearest_strategy, n_quick=100, n_thorough=1500, shards_quick=1, shards_thorough=4, budget_quick=240.0),
            Sub("annotate_seqlets", annotate_case, strategy=annotate_strategy, n_quick=40, n_thorough=800, shards_quick=1, shards_thorough=4, budget_quick=240.0)]

#!/venv/bin/python
"""Single entry point:  run_check.py <ID> [--tier quick|thorough] [--replay FILE]

exit 0  property held on everything explored
exit 1  + "VIOLATION property=<id> replay=<path>"  a violation not listed as known
exit 2  + "HARNESS-ERROR ..."                      the machinery itself failed (never a verdict)
"""
import os
import sys

HERE = os.path.dirname(os.path.abspath(__file__))
sys.path.insert(0, HERE)

from pbt import harness  # noqa: E402

if __name__ == "__main__":
    if len(sys.argv) < 2 or not sys.argv[1].upper().startswith("C"):
        print("usage: run_check.py <C01..C20> [--tier quick|thorough] [--replay FILE]")
        sys.exit(2)
    tier = os.environ.get("VERIF_TIER", "quick")
    if "--tier" in sys.argv:
        tier = sys.argv[sys.argv.index("--tier") + 1]
    harness.setup_env(tier)
    pid = sys.argv[1].upper()
    os.chdir(HERE)
    sys.exit(harness.main("checks.%s" % pid.lower(), sys.argv[2:]))

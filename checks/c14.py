"""C14 - TOMTOM scores and p-values match an independent complete-score reference."""
import numpy
import torch
from hypothesis import strategies as st

from pbt.harness import Sub, Violation, Rejected, SutRaised, require, sut
from pbt.ref.tomtom_ref import QueryRef, merge_strands

from tangermeme.tools import tomtom as TT

PROPERTY = "C14"
LEVEL = "exploration"
RULE = ("cases = (1-6 queries x 1-8 targets of lengths 1-25 as integer column weights: Dirichlet-like, coarse grids (k/2, k/4, "
        "k/10), one-hot and uniform columns, low-complexity 'homopolymer-like' target pools; n_score_bins 10-200; reverse complement "
        "on/off; hashing disabled) drawn by Hypothesis. Stage A: _integer_distances_and_histogram, called as tomtom() calls it, must "
        "give similarities in [0, n_score_bins] that are non-increasing in exact Euclidean distance and a histogram equal to the pooled "
        "counts (cases whose matrix does not fit an 8-bit store are labelled). Stage B: tomtom() is compared with a "
        "numpy reference that recomputes, from the integer matrix only, every alignment score over all relative offsets, the "
        "convolution null of each offset with the full pooled pmf, p = 1 - prod CDF(best-1), and the strand merge (ties tolerated). "
        "Non-trivial: nq != nt and the best alignment has an overhang.")
ASSUMPTIONS = ["n_target_bins=None (no column hashing)", "n_cache >= n_score_bins (documented precondition: n_cache >= offset)",
               "stage A relies on the module-level function _integer_distances_and_histogram named in the property's observation points"]


def _pwm(cols):
    c = numpy.array(cols, dtype=numpy.float64)
    return numpy.ascontiguousarray((c / c.sum(axis=1, keepdims=True)).T)


def _prep(Qs, Ts, rc):
    Q = numpy.concatenate(Qs, axis=-1)
    Tall = list(Ts) + [T[::-1, ::-1] for T in Ts] if rc else list(Ts)
    T = numpy.concatenate(Tall, axis=-1)
    return Q, (Q ** 2).sum(axis=0), T, (T ** 2).sum(axis=0), [t.shape[-1] for t in Tall]


def _integerise(Q, T, Qn, Tn, qoff, nq, n_bins, dtype):
    ncol = T.shape[-1]
    gamma = numpy.empty((ncol, nq), dtype="float64")
    gi = numpy.zeros((ncol, nq), dtype=dtype)
    f = numpy.empty((nq, n_bins + 1), dtype="float64")
    med = numpy.empty(nq, dtype="float64")
    mb = numpy.empty((1000, 2), dtype="float64")
    counts = numpy.ones(ncol, dtype="int64")
    off = TT._integer_distances_and_histogram(Q, T, gamma, gi, f, med, mb, Qn, Tn, counts, qoff, nq, n_bins)
    return int(off), gi, f


def tomtom_case(case, ctx):
    Qs = [_pwm(c) for c in case["queries"]]
    Ts = [_pwm(c) for c in case["targets"]]
    if case.get("self_in_targets") is not None:
        Ts = Ts + [Qs[case["self_in_targets"] % len(Qs)].copy()]
    n_bins, rc = case["n_score_bins"], case["rc"]
    Q, Qn, T, Tn, T_lens = _prep(Qs, Ts, rc)
    nT = len(Ts)
    desc = "n_score_bins=%d rc=%s qlens=%s tlens=%s" % (n_bins, rc, [q.shape[1] for q in Qs], [t.shape[1] for t in Ts])
    kw = dict(n_score_bins=n_bins, n_target_bins=None, n_cache=max(100, n_bins), reverse_complement=rc, n_jobs=1)
    # degenerate pool: some query column is equally far from every target column, so there is no spread to take a median of /
    # discretise (the implementation divides by that spread and raises) - outside the property's domain, counted as rejected
    dall = numpy.sqrt(((Q[:, None, :] - T[:, :, None]) ** 2).sum(axis=0))
    degenerate = bool((dall.max(axis=0) - dall.min(axis=0)).min() < 1e-12)
    try:
        Tl = [t.copy() for t in Ts]
        Ql = [q.copy() for q in Qs]
        if case.get("reuse_lists"):
            # the same list objects were used for an earlier call with other motifs and then edited in place
            Tl = [numpy.ascontiguousarray(numpy.roll(t, 1, axis=0)) for t in Ts]
            Ql = [numpy.ascontiguousarray(numpy.roll(q, 1, axis=0)) for q in Qs]
            try:
                TT.tomtom(Ql, Tl, **kw)
            except Exception:  # noqa: BLE001
                pass
            for i_, t_ in enumerate(Ts):
                Tl[i_] = t_.copy()
            for i_, q_ in enumerate(Qs):
                Ql[i_] = q_.copy()
            ctx.label("list_objects_reused_after_in_place_edit")
        res = TT.tomtom(Ql, Tl, **kw)
        if not (len(Ql) == len(Qs) and len(Tl) == len(Ts) and all(numpy.array_equal(a, b) for a, b in zip(Ql + Tl, Qs + Ts))):
            raise Violation("tomtom-inputs-modified", "the query / target arrays (or lists) handed to tomtom were changed")
    except Violation:
        raise
    except Exception as e:  # noqa: BLE001
        if degenerate:
            raise Rejected() from e
        raise SutRaised(e) from e
    if degenerate:
        raise Rejected()
    res = res.numpy()
    require(res.shape == (5, len(Qs), nT), "tomtom-shape", lambda: str(res.shape))
    qoff = 0
    overhang = False
    for qi, q in enumerate(Qs):
        nq = q.shape[1]
        # ---------------- stage A
        try:
            off8, g8, f8 = _integerise(Q, T, Qn, Tn, qoff, nq, n_bins, "int8")
            off, g16, f = _integerise(Q, T, Qn, Tn, qoff, nq, n_bins, "int16")
        except ZeroDivisionError as e:
            raise Rejected() from e
        S = g16[:, ::-1].astype(numpy.int64) + off                     # S[target column, query column]
        if off8 != off or not (g8.astype(numpy.int64) == g16.astype(numpy.int64)).all():
            # an 8-bit store of this matrix would wrap; whether the implementation is affected shows in stage B, which compares
            # tomtom()'s results with the reference computed from the un-wrapped (int16) matrix
            ctx.label("similarity_needs_more_than_int8")
        require(S.min() >= 0 and S.max() <= n_bins, "integer-similarity-out-of-range",
                lambda: "%s query %d: similarities span [%d, %d]" % (desc, qi, int(S.min()), int(S.max())))
        d2 = ((q[:, None, :] - T[:, :, None]) ** 2).sum(axis=0)          # (ncol, nq) exact squared distances
        for c in range(nq):
            order = numpy.argsort(d2[:, c], kind="stable")
            ds, xs = numpy.sqrt(d2[order, c]), S[order, c]
            # similarity must not increase with distance (pairs closer than 1e-9 are not ordered)
            runmin = numpy.minimum.accumulate(xs)
            viol = numpy.nonzero(xs[1:] > runmin[:-1])[0]
            for v in viol:
                j = int(numpy.argmin(xs[:v + 1]))
                if ds[v + 1] - ds[j] > 1e-9:
                    raise Violation("similarity-not-monotone-in-distance", "%s query %d column %d: distance %.6f -> %d but distance %.6f -> %d" % (
                        desc, qi, c, ds[j], xs[j], ds[v + 1], xs[v + 1]))
        hist = numpy.stack([numpy.bincount(S[:, c], minlength=n_bins + 1)[: n_bins + 1] / S.shape[0] for c in range(nq)])
        require(numpy.allclose(f, hist, rtol=0, atol=1e-12), "histogram-differs-from-integer-matrix", lambda: "%s query %d" % (desc, qi))
        if (S == 0).any():
            ctx.label("mass_in_bin_0")
        # ---------------- stage B
        ref = QueryRef(S, off, n_bins)
        col0 = 0
        per_target = []
        for nt in T_lens:
            per_target.append(ref.target(col0, nt))
            col0 += nt
        for ti in range(nT):
            if rc:
                p_ref, ok = merge_strands(per_target[ti], per_target[ti + nT])
            else:
                p_ref, ok = per_target[ti]["p"], [(0, per_target[ti])]
            p, sc, o, ov, strand = (float(res[k, qi, ti]) for k in range(5))
            where = "%s query %d (len %d) target %d (len %d)" % (desc, qi, nq, ti, T_lens[ti])
            best = ok[0][1]["score"]
            require(sc == best, "tomtom-score", lambda: "%s: score %r, reference maximum over offsets %d" % (where, sc, best))
            require(any(int(strand) == s_ and (int(o), int(ov)) in r["argmax"] for s_, r in ok), "tomtom-offset-overlap-strand",
                    lambda: "%s: reported (offset %d, overlap %d, strand %d); alignments attaining the best score: %s" % (
                        where, int(o), int(ov), int(strand), [(s_, r["argmax"]) for s_, r in ok]))
            require(abs(p - p_ref) <= 1e-9 + 1e-6 * abs(p_ref), "tomtom-p-value" if best > 0 else "tomtom-p-value-at-score-0",
                    lambda: "%s: p = %.9g, reference %.9g (score %d, bin-0 mass %.4f)" % (where, p, p_ref, best, float((S == 0).mean())))
            if nq != T_lens[ti] and any(ov_ < min(nq, T_lens[ti]) or ov_ < nq for s_, r in ok for (_, ov_) in r["argmax"]):
                overhang = True
        # self match
        if case.get("self_in_targets") is not None and qi == case["self_in_targets"] % len(Qs):
            r = per_target[nT - 1]
            require((0, nq) in r["argmax"], "self-match-not-best-at-offset-0",
                    lambda: "%s query %d against itself: best alignments %s" % (desc, qi, r["argmax"]))
            ctx.label("self_match_checked")
        qoff += nq
        if nq == 1:
            ctx.label("nq=1")
    for t in Ts:
        if t.shape[1] == 1:
            ctx.label("nt=1")
    lens = [(q.shape[1], t.shape[1]) for q in Qs for t in Ts]
    for a, b in lens:
        ctx.label("nq<nt" if a < b else ("nq=nt" if a == b else "nq>nt"))
    # reverse-complemented targets change only the strand
    if rc and case.get("rc_metamorphic"):
        res2 = sut(TT.tomtom, [q.copy() for q in Qs], [numpy.ascontiguousarray(t[::-1, ::-1]) for t in Ts], **kw).numpy()
        require(numpy.array_equal(res2[1], res[1]), "rc-targets-change-score", desc)
        require(numpy.allclose(res2[0], res[0], rtol=1e-9, atol=1e-12), "rc-targets-change-p", desc)
        ctx.label("rc_metamorphic")
    ctx.nt(overhang)
    ctx.label("bins_%s" % ("<=50" if n_bins <= 50 else ("<=120" if n_bins <= 120 else ">120")))


@st.composite
def pwm_cols(draw, w, style):
    cols = []
    for _ in range(w):
        s = style if style != "mixed" else draw(st.sampled_from(["fine", "fine", "half", "quarter", "tenth", "onehot", "uniform"]))
        if s == "fine":
            c = [draw(st.integers(1, 1000)) for _ in range(4)]
        elif s == "half":
            c = [0, 0, 0, 0]
            for _ in range(2):
                c[draw(st.integers(0, 3))] += 1
        elif s == "quarter":
            c = [0, 0, 0, 0]
            for _ in range(4):
                c[draw(st.integers(0, 3))] += 1
        elif s == "tenth":
            c = [0, 0, 0, 0]
            for _ in range(10):
                c[draw(st.integers(0, 3))] += 1
        elif s == "onehot":
            c = [0, 0, 0, 0]
            c[draw(st.integers(0, 3))] = 1
        elif s == "poolA":      # low-complexity: almost always the same column
            c = [1, 0, 0, 0] if draw(st.integers(0, 9)) else [0, 0, 1, 0]
        elif s == "pureX":      # only the majority column (used for queries against a halfpool / poolA target set)
            c = [1, 1, 0, 0]
        elif s == "pureA":
            c = [1, 0, 0, 0]
        elif s == "halfpool":   # coarse grid where most columns coincide and the rest sit at distance exactly 1
            r = draw(st.integers(0, 9))
            c = [1, 1, 0, 0] if r < 6 else ([0, 0, 1, 1] if r < 9 else [1, 0, 1, 0])
        else:
            c = [1, 1, 1, 1]
        cols.append(c)
    return cols


@st.composite
def strategy(draw):
    style = draw(st.sampled_from(["mixed", "mixed", "fine", "half", "quarter", "poolA", "poolA_both", "halfpool", "halfpool", "many_bins_low_complexity"]))
    nQ = draw(st.integers(1, 6))
    nT = draw(st.integers(1, 8))
    length = st.one_of(st.integers(1, 8), st.integers(1, 25))
    which = draw(st.booleans())
    qstyle = {"poolA": "mixed", "poolA_both": "poolA", "many_bins_low_complexity": "pureX" if which else "pureA"}.get(style, style)
    tstyle = {"poolA_both": "poolA", "many_bins_low_complexity": "halfpool" if which else "poolA"}.get(style, style)
    queries = [draw(pwm_cols(draw(length), qstyle)) for _ in range(nQ)]
    targets = [draw(pwm_cols(draw(length), tstyle)) for _ in range(nT)]
    bins = draw(st.sampled_from([10, 25, 50, 100, 100, 150, 182, 200])) if not (style.startswith("poolA") or style == "many_bins_low_complexity") else draw(st.sampled_from([100, 130, 150, 182, 190, 200]))
    case = {"queries": queries, "targets": targets, "n_score_bins": bins, "rc": draw(st.booleans())}
    if draw(st.integers(0, 2)) == 0:
        case["self_in_targets"] = draw(st.integers(0, nQ - 1))
    if case["rc"] and draw(st.integers(0, 3)) == 0:
        case["rc_metamorphic"] = True
    case["reuse_lists"] = draw(st.integers(0, 3)) == 0
    return case


def subchecks(tier):
    return [Sub("tomtom_reference", tomtom_case, strategy=strategy, n_quick=240, n_thorough=30000, shards_quick=4,
                budget_quick=240.0)]

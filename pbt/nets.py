"""Random sequential architectures for the DeepLIFT/SHAP properties (C04-C07) and an
independent layer-by-layer rescale-rule oracle (C05).

An architecture is a JSON list of layer descriptions; weights are a deterministic function
of an integer seed (torch.Generator), float64, scaled so that pre-activations are O(1).
"""
import copy

import torch
from hypothesis import strategies as st

ACTS = ["ReLU", "ReLU6", "RReLU", "SELU", "CELU", "GELU", "SiLU", "Mish", "ELU", "LeakyReLU", "Sigmoid", "Tanh",
        "Softplus", "Softshrink", "LogSigmoid", "PReLU"]


def _out_len(module, C, L):
    """Output length of a layer for input (1, C, L), measured by running it (None if the layer rejects that shape)."""
    try:
        with torch.no_grad():
            return int(module(torch.zeros(1, C, L, dtype=torch.float64)).shape[-1])
    except Exception:  # noqa: BLE001
        return None


@st.composite
def arch_strategy(draw, L, allow_maxpool=True, allow_overlap_pool=True, n_targets=None, max_blocks=3, acts=None, allow_norm=True):
    """Builds an architecture valid for input (B, 4, L) by construction; returns dict(layers, T)."""
    acts = acts or ACTS
    layers = []
    C, cur = 4, L
    nblocks = draw(st.integers(0, max_blocks))
    for _ in range(nblocks):
        kind = draw(st.sampled_from(["conv", "conv", "conv", "act_only"]))
        if kind == "conv":
            k = draw(st.integers(1, min(5, cur)))
            dil = draw(st.integers(1, 2)) if (k - 1) * 2 + 1 <= cur else 1
            stride = draw(st.integers(1, 2))
            padmode = draw(st.sampled_from(["none", "none", "half", "same"]))
            if padmode == "same":
                stride = 1
                pad = "same"
            elif padmode == "half":
                pad = (dil * (k - 1)) // 2
            else:
                pad = 0
            out = draw(st.integers(2, 6))
            o = _out_len(torch.nn.Conv1d(C, out, k, stride=stride, dilation=dil, padding=pad, dtype=torch.float64), C, cur)
            if o is not None and o >= 1:
                layers.append({"t": "conv", "in": C, "out": out, "k": k, "stride": stride, "dil": dil, "pad": pad})
                cur, C = o, out
                if allow_norm and draw(st.integers(0, 4)) == 0:
                    layers.append({"t": "bn", "c": C})            # affine in eval mode; uses batch statistics if left in training mode
        if allow_norm and draw(st.integers(0, 7)) == 0:
            layers.append({"t": "dropout"})
        if draw(st.integers(0, 5)) > 0:
            layers.append({"t": "act", "name": draw(st.sampled_from(acts))})
        pool = draw(st.sampled_from(["none", "none", "avg", "max"] if allow_maxpool else ["none", "none", "avg"]))
        if pool != "none" and cur >= 2:
            k = draw(st.integers(2, min(4, cur)))
            if pool == "avg":
                layers.append({"t": "avgpool", "k": k})
                cur = cur // k
            else:
                stride = None
                if allow_overlap_pool and draw(st.integers(0, 2)) == 0:
                    stride = draw(st.integers(1, k - 1)) if k > 1 else None
                pad = draw(st.sampled_from([0, 0, k // 2])) if k >= 2 else 0
                ceil = draw(st.booleans())
                dil = draw(st.sampled_from([1, 1, 1, 2]))
                o = _out_len(torch.nn.MaxPool1d(k, stride=stride, padding=pad, ceil_mode=ceil, dilation=dil), C, cur)
                if o is not None and o >= 1:
                    layers.append({"t": "maxpool", "k": k, "stride": stride, "pad": pad, "ceil": ceil, "dil": dil})
                    cur = o
    layers.append({"t": "flatten"})
    feat = C * cur
    T = n_targets or draw(st.integers(1, 4))
    if draw(st.booleans()):
        h = draw(st.integers(2, 6))
        layers.append({"t": "linear", "in": feat, "out": h})
        layers.append({"t": "act", "name": draw(st.sampled_from(acts))})
        layers.append({"t": "linear", "in": h, "out": T})
    else:
        layers.append({"t": "linear", "in": feat, "out": T})
    if draw(st.integers(0, 4)) == 0:
        layers.append({"t": "act", "name": draw(st.sampled_from(acts))})      # the model's output itself comes from an activation
    return {"layers": layers, "T": T, "L": L, "nested": draw(st.integers(0, 3)) == 0}


def build(arch, seed, scale=2.0):
    g = torch.Generator().manual_seed(int(seed) % (2 ** 31))
    mods = []
    for ly in arch["layers"]:
        t = ly["t"]
        if t == "conv":
            m = torch.nn.Conv1d(ly["in"], ly["out"], ly["k"], stride=ly["stride"], dilation=ly["dil"], padding=ly["pad"], bias=True, dtype=torch.float64)
            fan = ly["in"] * ly["k"]
            with torch.no_grad():
                m.weight.copy_(torch.randn(m.weight.shape, generator=g, dtype=torch.float64) * scale / fan ** 0.5)
                m.bias.copy_(torch.randn(m.bias.shape, generator=g, dtype=torch.float64) * 0.5)
        elif t == "linear":
            m = torch.nn.Linear(ly["in"], ly["out"], dtype=torch.float64)
            with torch.no_grad():
                m.weight.copy_(torch.randn(m.weight.shape, generator=g, dtype=torch.float64) * scale / ly["in"] ** 0.5)
                m.bias.copy_(torch.randn(m.bias.shape, generator=g, dtype=torch.float64) * 0.5)
        elif t == "act":
            m = getattr(torch.nn, ly["name"])()
            if ly["name"] == "PReLU":
                m = m.double()
        elif t == "avgpool":
            m = torch.nn.AvgPool1d(ly["k"])
        elif t == "maxpool":
            m = torch.nn.MaxPool1d(ly["k"], stride=ly["stride"], padding=ly["pad"], ceil_mode=ly["ceil"], dilation=ly.get("dil", 1))
        elif t == "bn":
            m = torch.nn.BatchNorm1d(ly["c"], dtype=torch.float64)
            with torch.no_grad():
                m.running_mean.copy_(torch.randn(ly["c"], generator=g, dtype=torch.float64) * 0.3)
                m.running_var.copy_(torch.rand(ly["c"], generator=g, dtype=torch.float64) + 0.5)
                m.weight.copy_(torch.randn(ly["c"], generator=g, dtype=torch.float64) * 0.5 + 1.0)
                m.bias.copy_(torch.randn(ly["c"], generator=g, dtype=torch.float64) * 0.3)
        elif t == "dropout":
            m = torch.nn.Dropout(0.3)
        elif t == "flatten":
            m = torch.nn.Flatten()
        else:
            raise ValueError(t)
        mods.append(m)
    if arch.get("nested") and len(mods) >= 3:
        # the same layers grouped into nested containers (blocks of blocks), as user models usually are
        k = max(1, len(mods) // 2)
        inner = torch.nn.Sequential(torch.nn.Sequential(*mods[:max(1, k // 2)]), *mods[max(1, k // 2):k])
        return torch.nn.Sequential(inner, torch.nn.Sequential(*mods[k:])).double().eval()
    return torch.nn.Sequential(*mods).double().eval()


def flat_layers(model):
    """leaf layers of a (possibly nested) Sequential, in execution order"""
    out = []
    for m in model:
        if isinstance(m, torch.nn.Sequential):
            out.extend(flat_layers(m))
        else:
            out.append(m)
    return out


def one_hot(idx_rows, A=4):
    t = torch.tensor(idx_rows, dtype=torch.int64)
    return torch.nn.functional.one_hot(t, A).transpose(-1, -2).to(torch.float64).contiguous()


def forward_plain(model, X, target=None):
    with torch.no_grad():
        y = model(X)
    return y if target is None else y[:, target]


# ------------------------------------------------------------------ independent rescale-rule oracle (C05)
LINEAR_TYPES = (torch.nn.Conv1d, torch.nn.Linear, torch.nn.AvgPool1d, torch.nn.Flatten, torch.nn.BatchNorm1d, torch.nn.Dropout)


def _act_derivative(layer, x):
    x = x.clone().requires_grad_(True)
    with torch.enable_grad():
        y = layer(x)
        return torch.autograd.grad(y.sum(), x)[0]


def rescale_multipliers(model, x, r, target):
    """DeepLIFT rescale-rule multipliers for one (example, reference) pair, layer by layer.
    Returns (multipliers w.r.t. the input (1, A, L), number of activation inputs in the 1e-7..1e-5 switch band,
             number of exact-zero deltas, number of non-zero deltas)."""
    layers = flat_layers(model)
    xs, rs = [x], [r]
    with torch.no_grad():
        for l in layers:
            xs.append(l(xs[-1]))
            rs.append(l(rs[-1]))
    m = torch.zeros_like(xs[-1])
    m[:, target] = 1.0
    band = zero = nonzero = 0
    for l, xi, ri, xo, ro in zip(reversed(layers), reversed(xs[:-1]), reversed(rs[:-1]), reversed(xs[1:]), reversed(rs[1:])):
        if isinstance(l, LINEAR_TYPES):
            xi_ = xi.clone().requires_grad_(True)
            with torch.enable_grad():
                yo = l(xi_)
                m = torch.autograd.grad(yo, xi_, grad_outputs=m)[0]
        else:
            din, dout = xi - ri, xo - ro
            small = din.abs() < 1e-6
            band += int(((din.abs() > 1e-7) & (din.abs() < 1e-5)).sum())
            zero += int((din == 0).sum())
            nonzero += int((din.abs() >= 1e-6).sum())
            ratio = dout / torch.where(small, torch.ones_like(din), din)
            m = m * torch.where(small, _act_derivative(l, xi), ratio)
    return m, band, zero, nonzero


def pristine(model):
    return copy.deepcopy(model)

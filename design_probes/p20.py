import torch, numpy, collections, os
from tangermeme.design import greedy_substitution
from tangermeme.predict import predict
from tangermeme.utils import random_one_hot, one_hot_encode, characters
rs = numpy.random.RandomState(int(os.environ.get("S","0")))
stats = collections.Counter()
class M(torch.nn.Module):
    def __init__(s, L, nout):
        super().__init__()
        s.W = torch.nn.Parameter(torch.tensor(rs.randint(-5, 6, size=(nout, 4, L)), dtype=torch.float64), requires_grad=False)
        s.b = torch.tensor(rs.randint(-3,4,size=(nout,)), dtype=torch.float64)
    def forward(s, X):
        return torch.relu(torch.einsum('bcl,ocl->bo', X, s.W) + s.b)
def lossf(m, X, y, mask):
    with torch.no_grad():
        yh = m(X.double())
    return ((y[:, mask]-yh[:, mask])**2).mean().item()
def brute(m, X, motifs, y, mask, include_last=True):
    L = X.shape[-1]; best = (lossf(m, X, y, mask), None)
    for mo in motifs:
        o = one_hot_encode(mo).double()
        for p in range(0, L-len(mo)+(1 if include_last else 0)):
            X2 = X.clone(); X2[0,:,p:p+len(mo)] = o
            l = lossf(m, X2, y, mask)
            if l < best[0]: best = (l, X2)
    return best
for trial in range(300):
    L = rs.randint(8, 25); nout = int(rs.choice([1,2,4]))
    m = M(L, nout)
    X = random_one_hot((1,4,L), random_state=rs.randint(1e6)).double()
    motifs = [''.join(rs.choice(list("ACGT"), size=rs.randint(1,7))) for _ in range(rs.randint(1,5))]
    y = torch.tensor(rs.randint(0, 20, size=(1,nout)), dtype=torch.float64)
    mask = torch.tensor(rs.rand(nout) < 0.8); 
    if not mask.any(): mask[0]=True
    tol = float(rs.choice([0, 0.5, 1.0])); k = int(rs.choice([0,1,2,3,-1]))
    l0 = lossf(m, X, y, mask)
    out1 = greedy_substitution(m, X, motifs, y, mask=mask, tol=tol, max_iter=1, device='cpu', batch_size=int(rs.randint(1,9)))
    l1 = lossf(m, out1, y, mask)
    bl, bX = brute(m, X, motifs, y, mask, include_last=False)   # emulate current (buggy) candidate set
    blT, _ = brute(m, X, motifs, y, mask, include_last=True)
    if abs(l1 - bl) > 1e-12: stats["single-step not argmin over tried positions"] += 1
    if blT < bl - 1e-12: stats["(true optimum is at last position)"] += 1
    if l1 > l0 + 1e-12: stats["loss increased"] += 1
    # chain consistency
    outk = greedy_substitution(m, X, motifs, y, mask=mask, tol=tol, max_iter=k, device='cpu')
    cur = X.clone(); steps = 0
    while True:
        if steps == k: break
        nxt = greedy_substitution(m, cur, motifs, y, mask=mask, tol=tol, max_iter=1, device='cpu')
        imp = lossf(m, cur, y, mask) - lossf(m, nxt, y, mask)
        cur = nxt
        if imp <= tol: break
        steps += 1
    if not torch.equal(cur, outk.double()): stats["chain mismatch"] += 1; 
    stats["trials"] += 1; stats["accepted>=1"] += int(not torch.equal(out1.double(), X))
for k_,v in sorted(stats.items()): print(v,k_)

"""C03 - predict is transparent to batching and keeps extra arguments aligned."""
import torch
from hypothesis import strategies as st

from pbt.harness import Sub, Violation, SutRaised, require, sut
from pbt import gen
from pbt.models import ExactNet

from tangermeme.predict import predict

PROPERTY = "C03"
LEVEL = "exploration"
RULE = ("cases = (n examples 1-40, batch size 1..n+3, 0-3 extra integer args with pairwise-distinct rows, model = exact integer "
        "stage [+ Dropout(0.5) + BatchNorm1d with generated running statistics], tensor/tuple/list outputs, handed over in "
        "training mode, X dtype) drawn by Hypothesis; thorough additionally enumerates every (n, b) pair of the grid. Oracle = "
        "concatenation of one-example-at-a-time eval-mode no-grad forward passes; recorded (training, grad) flags of every "
        "forward. Non-trivial: (n mod b != 0 or b > n) and >= 1 extra arg. Distinct = SHA-1 of case JSON.")
ASSUMPTIONS = ["BatchNorm uses eps=0 and power-of-four variances so that the eval-mode computation is exact and bit-identical for any batching"]


class Wrapped(torch.nn.Module):
    def __init__(self, net, T, seed, use_bn, use_dropout):
        super().__init__()
        self.net = net
        self.drop = torch.nn.Dropout(0.5) if use_dropout else None
        self.bn = None
        if use_bn:
            g = torch.Generator().manual_seed(seed)
            bn = torch.nn.BatchNorm1d(T, eps=0.0, dtype=torch.float64)
            bn.running_mean.copy_(torch.randint(-5, 6, (T,), generator=g).double())
            bn.running_var.copy_(torch.tensor([1.0, 4.0, 16.0, 0.25])[torch.randint(0, 4, (T,), generator=g)].double())
            with torch.no_grad():
                bn.weight.copy_(torch.randint(1, 4, (T,), generator=g).double())
                bn.bias.copy_(torch.randint(-3, 4, (T,), generator=g).double())
            self.bn = bn

    def forward(self, X, *args):
        y = self.net(X, *args)
        first = y if isinstance(y, torch.Tensor) else y[0]
        z = first
        if self.drop is not None:
            z = self.drop(z)
        if self.bn is not None:
            z = self.bn(z)
        if isinstance(y, torch.Tensor):
            return z
        rest = list(y[1:])
        return tuple([z] + rest) if isinstance(y, tuple) else [z] + rest


def predict_case(case, ctx):
    n, b = case["n"], case["b"]
    A, L = case["A"], case["L"]
    alpha = list(gen.LETTERS[:A])
    g = torch.Generator().manual_seed(case["seed"])
    idx = torch.randint(0, A, (n, L), generator=g)
    X = torch.nn.functional.one_hot(idx, A).permute(0, 2, 1).contiguous().to(gen.DTYPES[case["dtype"]])
    Xc = X.clone()
    nargs = case["nargs"]
    args = []
    for j in range(nargs):
        w = case["arg_widths"][j]
        # pairwise-distinct rows: row i starts with i
        a = torch.randint(0, 7, (n, w), generator=g)
        a[:, 0] = torch.arange(n) * (j + 1) + j
        if case.get("arg_dtypes", ["int64"] * nargs)[j] == "float64":
            # values that float32 cannot hold: an argument must reach the model exactly as given, whatever the model's dtype
            a = a.to(torch.float64) + 100000000.0 + 0.25
        args.append(a)
    argc = [a.clone() for a in args]
    T = case["T"]
    outputs = [[T]] + [[o] for o in case["extra_outputs"]]
    container = case["container"]
    pdt_model = torch.float32 if case.get("param_dtype") == "float32" else torch.float64
    net = ExactNet(A, L, outputs, n_args=nargs, seed=case["seed"], container=container, has_param=case["has_param"], param_dtype=pdt_model)
    model = Wrapped(net, T, case["seed"], case["bn"], case["dropout"]) if (case["bn"] or case["dropout"]) else net
    # oracle first, on the same instance in eval mode, one example at a time
    model.eval()
    with torch.no_grad():
        pdt = (pdt_model if case["has_param"] else (torch.float64 if case["bn"] else X.dtype))
        rows = [model(X[i:i + 1].type(pdt), *[a[i:i + 1] for a in args]) for i in range(n)]
    if container == "tensor":
        want = [torch.cat(rows)]
    else:
        want = [torch.cat([r[k] for r in rows]) for k in range(len(outputs))]
    net.calls.clear()
    if case.get("hand_over") == "eval_root_train_sub" and isinstance(model, Wrapped):
        model.eval()                  # root already in eval mode (e.g. after an earlier predict) ...
        for sub_ in (model.drop, model.bn):
            if sub_ is not None:
                sub_.train()          # ... but Dropout / BatchNorm switched back on (MC-dropout recipe, partial fine-tuning)
        ctx.label("root_eval_submodules_train")
    else:
        model.train()                 # handed over in training mode
    kw = {"args": tuple(args)} if nargs else ({} if case.get("empty_args") is None else {"args": () if case["empty_args"] == "tuple" else []})
    if case.get("bad_arg") is not None and nargs:
        bad = list(args)
        j_ = case["bad_arg"] % nargs
        delta = case.get("bad_delta", -1)
        if delta < 0 and n + delta >= 1:
            bad[j_] = bad[j_][: n + delta]                                   # too short
        else:
            bad[j_] = torch.cat([bad[j_], bad[j_][: max(1, abs(delta))]])      # too long (e.g. built for the full data set)
        ctx.nt()
        ctx.label("mismatched_arg")
        try:
            predict(model, X, args=tuple(bad), batch_size=b, device="cpu")
        except Exception:  # noqa: BLE001
            return
        raise Violation("predict-mismatched-arg-accepted", "arg with leading dimension %d accepted for n=%d" % (bad[case["bad_arg"] % nargs].shape[0], n))
    y = sut(predict, model, X, batch_size=b, device="cpu", **kw)
    require(torch.equal(X, Xc), "predict-input-modified", "X changed")
    for a, ac in zip(args, argc):
        require(torch.equal(a, ac), "predict-args-modified", "")
    if container == "tensor":
        require(isinstance(y, torch.Tensor), "predict-container", lambda: str(type(y)))
        got = [y]
    else:
        require(isinstance(y, (list, tuple)) and len(y) == len(outputs), "predict-container", lambda: "%s len %s" % (type(y), len(y) if hasattr(y, "__len__") else "?"))
        got = list(y)
    for k, (gk, wk) in enumerate(zip(got, want)):
        require(tuple(gk.shape) == tuple(wk.shape), "predict-shape", lambda: "output %d shape %s want %s (n=%d b=%d)" % (k, tuple(gk.shape), tuple(wk.shape), n, b))
        if not torch.equal(gk, wk):
            badrows = sorted(set((gk != wk).nonzero()[:, 0].tolist()))[:6]
            raise Violation("predict-values", "n=%d b=%d nargs=%d container=%s bn=%s dropout=%s output %d differs in rows %s" % (
                n, b, nargs, container, case["bn"], case["dropout"], k, badrows))
        require(not gk.requires_grad, "predict-output-requires-grad", "")
    require(len(net.calls) >= 1, "predict-no-forward", "")
    for tr, gr, shp, na in net.calls:
        require(tr is False, "predict-not-eval-mode", "a forward pass ran with model.training == True")
        require(gr is False, "predict-grad-enabled", "a forward pass ran with gradients enabled")
    ctx.nt((n % b != 0 or b > n) and nargs >= 1)
    ctx.label("container_" + container, "nargs_%d" % nargs)
    if b > n:
        ctx.label("b>n")
    elif n % b:
        ctx.label("partial_last_batch")
    if case["bn"] or case["dropout"]:
        ctx.label("train_vs_eval_observable")


def _case(draw, n, b):
    container = draw(st.sampled_from(["tensor", "tensor", "tuple", "list"]))
    nargs = draw(st.integers(0, 3))
    return {"n": n, "b": b, "A": draw(st.integers(2, 4)), "L": draw(st.integers(3, 8)), "seed": draw(st.integers(0, 10 ** 6)),
            "dtype": draw(st.sampled_from(["int8", "float32", "float64"])), "nargs": nargs,
            "arg_widths": [draw(st.integers(1, 3)) for _ in range(nargs)], "T": draw(st.integers(1, 4)),
            "extra_outputs": [] if container == "tensor" else [draw(st.integers(1, 3)) for _ in range(draw(st.integers(0, 2)))],
            "container": container, "has_param": draw(st.integers(0, 5)) > 0, "bn": draw(st.booleans()), "dropout": draw(st.booleans()),
            "bad_arg": draw(st.one_of(st.none(), st.none(), st.none(), st.none(), st.integers(0, 2))),
            "arg_dtypes": [draw(st.sampled_from(["int64", "int64", "float64"])) for _ in range(nargs)],
            "param_dtype": draw(st.sampled_from(["float64", "float64", "float32"])),
            "bad_delta": draw(st.sampled_from([-1, -1, -2, 1, 2, 3])), "hand_over": draw(st.sampled_from(["train", "train", "eval_root_train_sub"])),
            "empty_args": draw(st.sampled_from([None, "tuple", "list"]))}


@st.composite
def strategy(draw):
    n = draw(st.integers(1, 40))
    b = draw(st.integers(1, n + 3))
    return _case(draw, n, b)


def grid_enum(tier):
    import random
    cases = []
    rng = random.Random(12345)          # fixed construction of the grid's model variants (not a search choice)
    for n in range(1, 41):
        for b in range(1, n + 4):
            for container in ("tensor", "tuple"):
                nargs = (n + b) % 3 + (1 if container == "tuple" else 0)
                cases.append({"n": n, "b": b, "A": 4, "L": 5, "seed": rng.randrange(10 ** 6), "dtype": "int8", "nargs": nargs,
                              "arg_widths": [1 + (j % 2) for j in range(nargs)], "T": 2,
                              "extra_outputs": [] if container == "tensor" else [3], "container": container,
                              "has_param": True, "bn": (n % 2 == 0), "dropout": (b % 2 == 0), "bad_arg": None})
    return cases


def subchecks(tier):
    subs = [Sub("predict_random", predict_case, strategy=strategy, n_quick=3000, n_thorough=160000, shards_quick=4)]
    subs.append(Sub("predict_grid", predict_case, enum=grid_enum, exhaustive=True, shards_quick=2, shards_thorough=8,
                    desc="every (n, batch_size) pair with n in 1..40 and batch_size in 1..n+3 (940 pairs) x {tensor, tuple} outputs"))
    return subs

import numpy, pandas, torch, tempfile, os, pyBigWig
from tangermeme.io import extract_loci
from tangermeme.utils import one_hot_encode
rs = numpy.random.RandomState(0)
d = tempfile.mkdtemp()
chroms = {c: ''.join(rs.choice(list("ACGTacgtN"), size=n)) for c,n in (("chrA", 300), ("chrB", 201))}
fa = os.path.join(d,"g.fa")
with open(fa,"w") as f:
    for c,s in chroms.items():
        f.write(f">{c}\n"); [f.write(s[i:i+50]+"\n") for i in range(0,len(s),50)]
sig = {c: rs.poisson(2.0, size=len(s)).astype(numpy.float32) for c,s in chroms.items()}
bwp = os.path.join(d,"s.bw"); bw = pyBigWig.open(bwp,"w"); bw.addHeader([(c,len(s)) for c,s in chroms.items()])
for c in chroms: bw.addEntries(c, 0, values=sig[c].tolist(), span=1, step=1)
bw.close()
seqd = {c: one_hot_encode(s.upper()).numpy() for c,s in chroms.items()}
bad = 0; tot=0; kept_tot=0
for trial in range(300):
    inw, outw, jit = rs.randint(1,60), rs.randint(1,60), rs.randint(0,5)
    n = rs.randint(1,12)
    ch = rs.choice(list(chroms), size=n); st = numpy.array([rs.randint(0, len(chroms[c])-1) for c in ch]); en = st + rs.randint(1, 40, size=n)
    en = numpy.minimum(en, [len(chroms[c]) for c in ch])
    loci = pandas.DataFrame({"chrom": ch, "start": st, "end": en})
    try:
        X, y = extract_loci(loci, fa, signals=[bwp], in_window=inw, out_window=outw, max_jitter=jit)
        X2, y2 = extract_loci(loci, seqd, signals=[sig], in_window=inw, out_window=outw, max_jitter=jit)
    except Exception as e:
        print("EXC", type(e).__name__, str(e)[:100], inw, outw, jit, n); bad+=1; continue
    tot+=1
    exp_X, exp_y = [], []
    for c,s,e in zip(ch,st,en):
        mid = s + (e-s)//2; w = max(inw//2, outw//2)
        lo, hi = mid - w - jit, mid + w + jit + (max(inw,outw)%2 if False else 0)
        a, b = mid - inw//2 - jit, mid + inw//2 + jit + inw%2
        a2, b2 = mid - outw//2 - jit, mid + outw//2 + jit + outw%2
        L = len(chroms[c])
        inside = min(a,a2) > 0 and max(b,b2) < L
        crosses = min(a,a2) < 0 or max(b,b2) > L
        keep_impl = not (lo < 0 or hi >= L)
        if crosses and keep_impl: print("KEPT CROSSING", c,s,e,inw,outw,jit,L)
        if inside and not keep_impl: print("DROPPED INSIDE", c,s,e,inw,outw,jit,L, (a,b,a2,b2))
        if keep_impl:
            exp_X.append(one_hot_encode(chroms[c][a:b].upper()).numpy()); exp_y.append(sig[c][a2:b2])
    if len(exp_X) != X.shape[0]: print("count mismatch"); bad+=1; continue
    kept_tot += len(exp_X)
    if len(exp_X):
        if not (numpy.stack(exp_X) == X.numpy()).all() or not (X==X2).all(): print("seq mismatch", inw,outw,jit); bad+=1
        if not numpy.array_equal(numpy.stack(exp_y), y[:,0].numpy()) or not numpy.array_equal(y.numpy(), y2.numpy()): print("sig mismatch", inw, outw, jit); bad+=1
print("trials", tot, "kept", kept_tot, "bad", bad)

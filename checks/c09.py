"""C09 - saturation mutagenesis reports each single-character mutant at its own index."""
import torch
from hypothesis import strategies as st

from pbt.harness import Sub, Violation, SutRaised, require, sut, Unchanged, same_twice
from pbt import gen
from pbt.models import ExactNet

from tangermeme.ism import saturation_mutagenesis

PROPERTY = "C09"
LEVEL = "exploration"
RULE = ("cases = (alphabet 2-5, batch of 1-3 sequences of length 1-30, window [start,end) or the default end, batch size "
        "1..3*A*W+2 and the default 32, exact integer model with tensor (n,T) / (n,T1,T2) / tuple outputs, 0-2 per-example extra args, target "
        "int/slice/None, raw / attribution / hypothetical mode) drawn by Hypothesis. Oracle = explicit per-mutant forward passes "
        "of the same exact model (one example at a time) and the documented aggregation. Non-trivial: window length >= 2 and "
        "(window != whole sequence or tuple output or batch size not dividing A*W). Distinct = SHA-1 of case JSON.")
ASSUMPTIONS = ["attribution mode is only required for single-tensor models (as documented)",
               "negative `end` other than the default -1 is not generated"]


def _mutants(X, start, end):
    """(B, A, W, A, L): entry [n, c, w] = X[n] with position start+w set to character c."""
    B, A, L = X.shape
    W = end - start
    M = X[:, None, None].repeat(1, A, W, 1, 1).clone()
    for c in range(A):
        for w in range(W):
            M[:, c, w, :, start + w] = 0
            M[:, c, w, c, start + w] = 1
    return M


def ism_case(case, ctx):
    A = case["A"]
    alpha = list(gen.LETTERS[:A])
    seqs = case["seqs"]
    B, L = len(seqs), len(seqs[0])
    X = gen.encode_batch(seqs, alpha, gen.DTYPES[case.get("dtype", "float64")])
    Xc = X.clone()
    outs = case["outputs"]
    model = ExactNet(A, L, outs, n_args=len(case.get("args", [])), seed=case["seed"], container=case["container"])
    args = tuple(torch.tensor(a, dtype=torch.int64) for a in case.get("args", []))
    start = case["start"]
    end_arg = case["end"]
    end = L if end_arg is None else end_arg
    W = end - start
    mode = case["mode"]
    tgt = case.get("target")
    target = None if tgt is None else (tgt if isinstance(tgt, int) else slice(tgt[0], tgt[1]))
    kw = dict(start=start, batch_size=case["batch_size"], device="cpu")
    if end_arg is not None:
        kw["end"] = end_arg
    if args:
        kw["args"] = args

    if case.get("end_past"):
        # a window that runs past the sequence end cannot be honoured: there is no position p >= L to mutate
        ctx.nt()
        ctx.label("window_past_end")
        kw2 = dict(kw)
        kw2["end"] = L + case["end_past"]
        try:
            out = saturation_mutagenesis(model, X, raw_outputs=True, **kw2)
        except Exception:  # noqa: BLE001
            return
        raise Violation("ism-window-past-end-accepted", "L=%d start=%d end=%d returned %s" % (
            L, start, L + case["end_past"], [tuple(t.shape) for t in (out[1] if isinstance(out[1], (list, tuple)) else [out[1]])]))
    if case.get("pre_alphabet") and A > 2:
        # the same window was scanned before on sequences over a smaller alphabet
        A0 = A - 1
        m0 = ExactNet(A0, L, outs, n_args=len(case.get("args", [])), seed=case["seed"] + 1, container=case["container"])
        X0 = gen.encode_batch(["".join(c if c not in alpha else alpha[min(alpha.index(c), A0 - 1)] for c in s_) for s_ in seqs], alpha[:A0], X.dtype)
        try:
            saturation_mutagenesis(m0, X0, raw_outputs=True, **kw)
        except Exception:  # noqa: BLE001
            pass
        ctx.label("after_scan_with_smaller_alphabet")
    # oracle
    M = _mutants(X, start, end)                                   # (B, A, W, A, L)
    flat = M.reshape(B * A * W, A, L)
    fargs = [a[:, None, None].expand(B, A, W, *a.shape[1:]).reshape(B * A * W, *a.shape[1:]) for a in args]
    ref_hat = model.reference(flat, *fargs)
    ref0 = model.reference(X, *args)
    if case["container"] == "tensor":
        ref_hat = [ref_hat]
        ref0 = [ref0]
    ref_hat = [r.reshape(B, A, W, *r.shape[1:]) for r in ref_hat]

    if mode == "raw":
        with Unchanged("ism-args-modified", args=list(args)):
            y0, yh = same_twice(saturation_mutagenesis, "ism-second-call-differs", model, X, raw_outputs=True, **kw)
        require(torch.equal(X, Xc), "ism-input-modified", "")
        if case["container"] == "tensor":
            require(isinstance(y0, torch.Tensor) and isinstance(yh, torch.Tensor), "ism-raw-container", "tensor model must give tensors")
            y0, yh = [y0], [yh]
        require(len(y0) == len(outs) and len(yh) == len(outs), "ism-raw-n-outputs", lambda: "%d/%d" % (len(y0), len(yh)))
        for k in range(len(outs)):
            require(tuple(y0[k].shape) == tuple(ref0[k].shape) and torch.equal(y0[k].double(), ref0[k]), "ism-y0-wrong",
                    lambda: "output %d" % k)
            require(tuple(yh[k].shape) == tuple(ref_hat[k].shape), "ism-yhat-shape",
                    lambda: "output %d shape %s want %s (B=%d A=%d L=%d window=[%d,%d))" % (
                        k, tuple(yh[k].shape), tuple(ref_hat[k].shape), B, A, L, start, end))
            if not torch.equal(yh[k].double(), ref_hat[k]):
                bad = (yh[k].double() != ref_hat[k]).nonzero()[0].tolist()
                raise Violation("ism-yhat-wrong", "output %d of %s, B=%d A=%d L=%d window=[%d,%d) batch_size=%d: entry %s got %s want %s" % (
                    k, case["container"], B, A, L, start, end, case["batch_size"], bad,
                    yh[k][tuple(bad)].item(), ref_hat[k][tuple(bad)].item()))
    else:
        hyp = mode == "hyp"
        attr = sut(saturation_mutagenesis, model, X, target=target, hypothetical=hyp, **kw)
        require(torch.equal(X, Xc), "ism-input-modified", "")
        d = ref_hat[0] - ref0[0][:, None, None]
        if target is not None:
            d = d[:, :, :, target]
        d = d - d.mean(dim=1, keepdim=True)
        if d.dim() > 3:
            d = d.mean(dim=tuple(range(3, d.dim())))
        want = d if hyp else d * X[:, :, start:end].double()
        require(tuple(attr.shape) == tuple(want.shape), "ism-attr-shape", lambda: "%s want %s" % (tuple(attr.shape), tuple(want.shape)))
        require(torch.allclose(attr.double(), want, rtol=1e-9, atol=1e-6), "ism-attr-wrong",
                lambda: "max abs diff %g (B=%d A=%d L=%d window=[%d,%d) target=%r hyp=%r)" % (
                    (attr.double() - want).abs().max().item(), B, A, L, start, end, tgt, hyp))
    ctx.label(mode, "container_" + case["container"], "ndim_out_%d" % len(outs[0]))
    if end_arg is None:
        ctx.label("default_end", "default_end_start>0" if start > 0 else "default_end_start=0")
    if args:
        ctx.label("with_args")
    whole = (start == 0 and end == L)
    ctx.nt(W >= 2 and (not whole or case["container"] != "tensor" or (A * W) % case["batch_size"] != 0))
    if not whole:
        ctx.label("sub_window")


@st.composite
def strategy(draw):
    A = draw(st.integers(2, 5))
    B = draw(st.integers(1, 3))
    L = draw(st.one_of(st.integers(1, 8), st.integers(1, 30)))
    alpha = gen.LETTERS[:A]
    seqs = [draw(st.text(alphabet=alpha, min_size=L, max_size=L)) for _ in range(B)]
    start = draw(st.one_of(st.just(0), st.integers(0, L - 1)))
    if draw(st.integers(0, 3)) == 0:
        # unknown characters are encoded as all-zero columns; put one at the first mutated position or anywhere
        b_ = draw(st.integers(0, B - 1))
        p_ = start if draw(st.booleans()) else draw(st.integers(0, L - 1))
        seqs[b_] = seqs[b_][:p_] + "N" + seqs[b_][p_ + 1:]
    if draw(st.integers(0, 2)) == 0:
        end = None
    else:
        end = draw(st.integers(start + 1, L))
    Wd = (L if end is None else end) - start
    container = draw(st.sampled_from(["tensor", "tensor", "tuple", "list"]))
    nout = 1 if container == "tensor" else draw(st.integers(1, 3))
    outputs = []
    for _ in range(nout):
        if draw(st.booleans()):
            outputs.append([draw(st.integers(1, 4))])
        else:
            outputs.append([draw(st.integers(1, 3)), draw(st.integers(1, 3))])
    mode = draw(st.sampled_from(["raw", "raw", "attr", "hyp"])) if container == "tensor" else "raw"
    case = {"A": A, "seqs": seqs, "start": start, "end": end, "batch_size": draw(st.one_of(st.integers(1, A * Wd + 1), st.integers(A * Wd, 3 * A * Wd + 2), st.just(32))),
            "outputs": outputs, "container": container, "seed": draw(st.integers(0, 10 ** 6)), "mode": mode,
            "dtype": draw(st.sampled_from(["float64", "int8", "float32"]))}
    nargs = draw(st.integers(0, 2))
    if nargs:
        case["args"] = []
        for _ in range(nargs):
            width = draw(st.integers(1, 3))
            case["args"].append([[draw(st.integers(0, 9)) for _ in range(width)] for _ in range(B)])
    if end is not None and draw(st.integers(0, 9)) == 0:
        case["end_past"] = draw(st.integers(1, 4))
    case["pre_alphabet"] = draw(st.integers(0, 3)) == 0
    if mode != "raw":
        T = outputs[0][0]
        t = draw(st.integers(0, 2))
        if t == 0:
            case["target"] = None
        elif t == 1:
            case["target"] = draw(st.integers(-T, T - 1))          # negative targets index from the end, as everywhere in torch
        else:
            a = draw(st.integers(0, T - 1))
            case["target"] = [a, draw(st.integers(a + 1, T))]
    return case


def subchecks(tier):
    return [Sub("ism", ism_case, strategy=strategy, n_quick=4000, n_thorough=150000, shards_quick=4)]

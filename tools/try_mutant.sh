#!/bin/bash
# usage: tools/try_mutant.sh <patch.diff> <ID> [extra run_check args]
# Runs the check of <ID> against a scratch worktree of /repo's HEAD with the patch applied (VERIF_REPO), so /repo is never touched.
set -u
patch=$(readlink -f "$1"); id=$2; shift 2
wt=/tmp/wt/_mut_$$
git -C /repo worktree add --detach "$wt" HEAD -q || exit 2
cleanup() { git -C /repo worktree remove --force "$wt" 2>/dev/null; }
trap cleanup EXIT
git -C "$wt" apply "$patch" || { echo "patch does not apply"; exit 2; }
cd /verif
VERIF_REPO="$wt" /venv/bin/python run_check.py "$id" "$@" 2>&1 | grep -E "^(VIOLATION|violation:|HARNESS|KNOWN|C[0-9]+ tier)" | cut -c1-400
rc=${PIPESTATUS[0]}
echo "exit=$rc"

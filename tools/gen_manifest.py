#!/venv/bin/python
"""Regenerates MANIFEST.json from the table below (one entry per built check)."""
import json
import os

HERE = os.path.dirname(os.path.dirname(os.path.abspath(__file__)))

CHECKS = {
    "C01": dict(
        technique="property-based testing (Hypothesis) against a Python string-edit reference model + exhaustive small-scope enumeration",
        category="exploration", design_ref="DESIGN.md §3 C01",
        text="Every sequence of length <=5 x every motif of length <=3 x every start in [-3, L+3] (alphabet sizes 2-3 quick, 2-4 "
             "thorough) is enumerated for substitute/insert, every (start,end) pair for delete/randomize, and Hypothesis draws "
             "longer sequences, alphabets up to 6, all motif forms (string, shared, per-example, wrong batch), multisubstitute "
             "with int/list spacing. In-range edits must equal the string model exactly and be valid one-hot; out-of-range must "
             "raise; inputs are compared with clones. Bounded search; the enumerated scope is complete.",
        note="Trusts the harness-side encoder/decoder (pbt/gen.py) and Python string slicing as the reference. Motifs use alphabet "
             "characters only; spacings non-negative; X and motif share a dtype."),
    "C02": dict(
        technique="property-based testing (Hypothesis) with Counter-based composition oracles + exhaustive enumeration of sequences and of every internal permutation outcome of the Euler walk",
        category="exploration", design_ref="DESIGN.md §3 C02",
        text="shuffle/dinucleotide_shuffle outputs are checked for region character / ordered-pair Counters, identical flanks, one 1 per "
             "column, unchanged input and same-seed determinism on generated batches and on every sequence up to length 7/8; the walk "
             "itself is run through _fast_shuffle.py_func with its random source replaced by an enumerator so that every combination "
             "of permutations it can draw is executed for every short sequence (complete), and a seeded sample for longer ones.",
        note="walk_outcomes assumes the walk draws randomness only via numpy.random.permutation; if that changes the sub-check labels "
             "itself unavailable (no verdict) and the seed-sampled sub-checks remain. Exceptions from dinucleotide_shuffle are permitted "
             "rejections per the statement and are counted."),
    "C03": dict(
        technique="property-based testing (Hypothesis): differential against one-example-at-a-time forward passes of an exact-integer model + full (n, batch_size) grid",
        category="exploration", design_ref="DESIGN.md §3 C03",
        text="predict is compared exactly (torch.equal) with the concatenation of per-example eval-mode no-grad forward passes for generated "
             "n in 1..40, batch sizes 1..n+3, 0-3 extra args with pairwise-distinct rows, tensor/tuple/list outputs, Dropout+BatchNorm "
             "stages handed over in training mode; every forward records (training, grad-enabled); mismatched args must raise; inputs "
             "compared with clones. The whole (n, b) grid (940 pairs x 2 model kinds) is enumerated in both tiers.",
        note="BatchNorm uses eps=0 and power-of-four running variances so eval-mode arithmetic is exact for any batching; device is cpu."),
    "C04": dict(
        technique="property-based testing (Hypothesis) over generated network architectures: algebraic completeness law checked against independent forward passes of a pristine copy",
        category="exploration", design_ref="DESIGN.md §3 C04",
        text="Random sequential networks (Conv1d with stride/dilation/padding, 16 element-wise activations, AvgPool1d, MaxPool1d with "
             "default/smaller stride, padding and ceil_mode, Flatten, Linear) with float64 weights, random one-hot inputs, explicit or "
             "generated references, targets, n_shuffles and batch sizes; the processed attributions must sum to f(x)[t] - mean f(ref)[t] and "
             "the raw multipliers must satisfy sum((x-ref)*m) = f(x)[t]-f(ref)[t] per pair (1e-6 relative), with no convergence warning.",
        note="Forward passes of a deep copy taken before the call are the reference; a case is non-trivial only if the plain gradient "
             "of the same model violates the relation. GLU/Softmax (not element-wise) are outside the stated domain."),
    "C05": dict(
        technique="property-based testing (Hypothesis) over generated architectures: differential against an independent layer-by-layer rescale-rule oracle",
        category="exploration", design_ref="DESIGN.md §3 C05",
        text="For random networks of Conv1d/Linear/AvgPool1d/Flatten and the 16 element-wise activations, the raw multipliers, the "
             "hypothetical and the processed attributions returned by deep_lift_shap are compared (rtol 1e-8, atol 1e-10) with a "
             "harness-side DeepLIFT that forwards example and reference separately through a pristine copy and walks backwards layer by "
             "layer (transpose of each linear layer, (out(x)-out(ref))/(in(x)-in(ref)) at activations, ordinary derivative where the "
             "inputs coincide); references share prefixes / are point mutants so both regimes occur. Affine models are checked against "
             "the closed form and for independence of every bias.",
        note="Cases with an activation input delta inside (1e-7, 1e-5) are skipped and counted (switch band); max-pooling is covered by "
             "the completeness law of C04, not by this oracle."),
    "C06": dict(
        technique="property-based testing (Hypothesis): metamorphic relations across batch sizes, example subsets and permutations, repeated calls",
        category="exploration", design_ref="DESIGN.md §3 C06",
        text="For generated architectures (incl. max-pooling and an extra per-example model argument), references given as tensors or "
             "generated by dinucleotide_shuffle/shuffle with an integer seed, and processed/raw/hypothetical outputs, the call that puts "
             "all example-reference pairs into one batch is compared with calls at generated batch sizes (1, n_shuffles-1, n_shuffles+1, "
             "sizes not dividing n*n_shuffles), on a subset and on a permutation of the examples: attributions allclose(1e-9, 1e-12), "
             "returned references exactly equal; a repeated identical call must be bit-identical.",
        note="Exact equality across different batchings is deliberately not demanded (last-bit differences of BLAS kernels were "
             "observed at design time); references=function only with an integer random_state."),
    "C07": dict(
        technique="fault injection with exhaustive crash-point enumeration (k-th forward / reference-generator / backward call) + enumerated and Hypothesis-generated call histories, invariant checked after every step against a pristine copy",
        category="fault_enumeration", design_ref="DESIGN.md §3 C07",
        text="A model containing identity fault layers is handed to every model-taking API function (predict, deep_lift_shap in three "
             "configurations, saturation_mutagenesis, marginalize/ablate/space and their annotation variants, the three variant-effect "
             "functions, apply_pairwise/apply_product, greedy_substitution; func = predict and deep_lift_shap). A fault-free run counts the "
             "forward, reference-generator and backward calls and every k-th one is made to raise, plus 11 input-validation failures; all "
             "ordered pairs (failing step, any step) over that alphabet and generated histories of length 3-4 run on one shared model. "
             "After every call or raise: no hooks or handles left, state_dict byte-identical, requires_grad/.grad unchanged, probe forward "
             "and ordinary gradients torch.equal to a pristine copy, successful calls equal the result on a fresh copy.",
        note="Crash points are those reachable through Python-level hooks (module forward, reference callable, autograd function); "
             "leftover plain attributes and eval mode are allowed by the statement. cpu only."),
    "C08": dict(
        technique="property-based testing (Hypothesis): differential against explicit per-index loops, with an echo func that encodes the (X, args) it received and predict on an exact-integer model",
        category="exploration", design_ref="DESIGN.md §3 C08",
        text="For marginalize, ablate, space, marginalize_annotations, ablate_annotations, apply_pairwise and apply_product every entry "
             "of the before/after/product output is compared exactly with func applied to the input the index denotes (string model of "
             "substitute/multisubstitute, the stated-seed shuffle, the annotation's span, the argument row(s)), for 1-3 outputs, 0-2 "
             "per-example args with distinct rows, n shuffles 1-5, 1-4 spacing rows, 1-6 annotations (!= #outputs) and product batch "
             "sizes that do not divide the product size.",
        note="func returns a tensor or a flat tuple/list; ablate_annotations with per-example args and B>1 is refused by the code and "
             "counted as rejected_by_sut; with func=deep_lift_shap (random float64 architectures, generated references, integer seed) entries are compared at rtol 1e-9 with single-example calls."),
    "C09": dict(
        technique="property-based testing (Hypothesis): differential against explicit per-mutant forward passes of an exact-integer model",
        category="exploration", design_ref="DESIGN.md §3 C09",
        text="For generated alphabets (2-5), lengths (1-30), windows incl. the default end, batch sizes 1..A*W+1, tensor/tuple/list "
             "outputs with 1-2 trailing output axes, per-example extra args and int/slice/None targets, raw y0/y_hat are compared "
             "exactly with one-example-at-a-time forward passes on explicitly constructed mutants, and the attribution output with the "
             "documented aggregation recomputed from those values.",
        note="Models are exact (float64 integers + ReLU), so comparison of raw outputs is exact; attributions use atol 1e-6. Attribution "
             "mode only for single-tensor models; negative end other than the default is not generated."),
    "C10": dict(
        technique="property-based testing (Hypothesis) against a Python string-edit model of substitutions/deletions/insertions + exhaustive small-scope enumeration",
        category="exploration", design_ref="DESIGN.md §3 C10",
        text="The tensors that reach func are captured (echo func; predict on an exact per-position integer coder with a per-example "
             "extra argument) and compared with a string-level model: every subset of <=3 deleted positions per example for B<=2 and "
             "L<=6/7/8 on all-distinct-character sequences with both trim sides, every <=2 insertion coordinates, and random batches "
             "(B<=4, L<=14) of all three variant kinds incl. duplicate rows and invalid lists that must raise.",
        note="Indices are non-negative; insertion coordinates 0..L-1 distinct within an example (coordinate L is ambiguous and not "
             "generated); example indices in range; no conflicting substitutions; at least one position survives."),
    "C16": dict(
        technique="property-based testing (Hypothesis): differential against direct slicing of generated genomes / signal arrays, file-vs-memory metamorphic relation, grammar-based MEME file generation",
        category="exploration", design_ref="DESIGN.md §3 C16",
        text="Synthetic genomes (FASTA with generated line width, lower-case and N runs), integer signal tracks (bigWig written with "
             "pyBigWig), 1-3 locus sets (DataFrame / BED) with loci at both chromosome edges, odd/even in/out windows in either order, "
             "jitter, chroms filter, n_loci cap and count filters: every returned row must be, in round-robin order, the one-hot of the "
             "upper-cased bases and the raw signal values of the centred windows; loci strictly inside must be kept, crossing ones "
             "dropped, touching ones either; file-based and in-memory calls must agree. read_meme is run on generated MEME files in all "
             "layouts (URL line or not, 0-2 blank lines, no/single/multiple final newline, CRLF, trailing blanks, n_motifs) and must "
             "return every motif in file order with the written probabilities.",
        note="Signal values are small integers (exact in float32); if no locus survives the function raises (numpy.stack of nothing), "
             "accepted only when no locus lies strictly inside."),
    "C17": dict(
        technique="property-based testing (Hypothesis): validity predicate over the returned loci against an eligibility model computed from the generated genome and signal + n_jobs metamorphic relation",
        category="exploration", design_ref="DESIGN.md §3 C17",
        text="Synthetic genomes of in_window-sized blocks with prescribed GC fraction (incl. 0 and 1), N stretches and an unaligned tail, "
             "random input loci (aligned and unaligned), in_window 50-500, out_window <= in_window incl. equal, bin widths 0.01-0.1, "
             "max_n_perc 0-0.5, optional integer bigWig with signal_beta, chroms and seeds. Every returned row must be an aligned tile "
             "inside its chromosome, unique, untouched by any input locus, within the N and signal limits; the total may not exceed the "
             "usable inputs, every GC bin is bounded by min(inputs, eligible) and eligible, inputs stay unmatched only when the eligible "
             "background is exhausted, and the frame must not depend on n_jobs.",
        note="Many outputs are valid, so a validity predicate (not one expected answer) is checked; tiles with ambiguous eligibility "
             "(aligned locus end, signal equal to the threshold) widen the bounds; exceptions on valid input (e.g. bin width 0.06 with a "
             "GC=1.0 tile indexes past the count arrays) are counted as rejected_by_sut because the statement constrains returned loci."),
    "C18": dict(
        technique="property-based testing (Hypothesis) against brute-force Python counting + exhaustive k-mer enumeration",
        category="exploration", design_ref="DESIGN.md §3 C18",
        text="Random annotation tables (abutting, overlapping, nested, coinciding spans and spans exactly max_distance-1 / max_distance "
             "/ max_distance+1 apart, all accepted input forms, explicit shapes, dtypes) are counted by count_annotations, "
             "pairwise_annotations and pairwise_annotations_spacing and compared entry-for-entry with O(n^2) Python enumeration "
             "written from the statement; kmers is compared with direct enumeration for every sequence up to length 6 and random "
             "longer ones with integer scores.",
        note="Spans have end > start; counts are kept inside the dtype range (else int64); only symmetric=True is compared for the "
             "spacing function because its non-symmetric orientation is not stated."),
    "C11": dict(
        technique="property-based testing (Hypothesis) against an exact integer-count reference (int64 convolution, brute-force cross-check for w<=7)",
        category="exploration", design_ref="DESIGN.md §3 C11",
        text="_pwm_to_mapping is called with log-odds built exactly as fimo() builds them for generated PWMs (width 1-30; Dirichlet-like, "
             "coarse-grid, zero-containing, uniform and one-hot columns), bin sizes 0.01-1 and pseudocounts 1e-6-0.1; every table entry "
             "must equal log2 of the exact number of sequences with discretised score >= that bin over 4^w within 1e-9, be exactly -inf "
             "above the highest attainable score, 0 at/below the lowest, monotone, never NaN or > 0.",
        note="Exercises the one numba/LLVM build in this sandbox. A second sub-check scans every sequence of the motif length through fimo() (also after an earlier scan with other settings) and compares the p-value column with the exact tails. Observes the module-level function _pwm_to_mapping named in the "
             "property's observation points (its absence is a HARNESS-ERROR); the p-value column of fimo() is checked in C12."),
    "C12": dict(
        technique="property-based testing (Hypothesis): differential against a pure-numpy reference scanner with exact C11 tables + directed threshold-band construction + metamorphic views",
        category="exploration", design_ref="DESIGN.md §3 C12",
        text="fimo() is run on generated motif sets (1-8, width 2-20) and sequences over ACGTN (random, consensus planted at 0 / L-w / "
             "interior on either strand, shorter than the motif, lower case, tensor / numpy / FASTA input) and its hit set is compared, "
             "order-free and field by field, with every window 0..L-w of both strands scored by an independent scanner against the score "
             "threshold derived from the exact tail table; return_counts, dim=1, FASTA-vs-tensor and thread-count views must describe the "
             "same set. A directed generator tunes a planted window's score into the gap between the exact threshold and its float32 "
             "rounding.",
        note="Windows within 1e-9(1+|t|) of the threshold or 1e-9 of a bin edge are ignored and counted; for negative scores the table "
             "entry of either the truncated or the floored bin is accepted. Thread counts up to 4 (quick) / 16 (thorough)."),
    "C13": dict(
        technique="property-based testing (Hypothesis): metamorphic comparison across generated schedules (thread count, chunk size, query permutation / duplication / subset) against a one-query-one-thread baseline",
        category="exploration", design_ref="DESIGN.md §3 C13",
        text="Every query is first processed alone with one thread; generated schedules (n_jobs, numba parallel chunk size, permuted / "
             "duplicated / subset query lists incl. long-before-short orders that reuse per-thread scratch buffers) must reproduce those "
             "results bit-for-bit per query. n_nearest must return exactly the n smallest p-values of the full row in ascending order with "
             "distinct indices and the fields of those targets, and annotate_seqlets must agree with tomtom on the extracted seqlets and "
             "not depend on seqlet order.",
        note="The harness owns thread count, chunk size and query order but not the interleaving: a true data race is caught only "
             "statistically (thorough tier repeats multi-thread schedules). Thread counts up to 4 (quick) / 16 (thorough)."),
    "C14": dict(
        technique="property-based testing (Hypothesis): differential against an independent numpy complete-score / convolution-null reference fed with the integerised similarity matrix, plus monotonicity and metamorphic relations",
        category="exploration", design_ref="DESIGN.md §3 C14",
        text="Stage A calls _integer_distances_and_histogram as tomtom() does and checks that the integer similarities lie in [0, "
             "n_score_bins], are non-increasing in exact Euclidean distance and that the histogram equals the pooled counts. Stage B "
             "recomputes from that matrix every alignment score over all relative offsets, the null pmf of each offset by convolving the "
             "FULL pooled per-column pmfs, p = 1 - prod CDF(best-1) and the strand merge, and compares score (exact), offset/overlap/"
             "strand (must attain the best score; ties tolerated) and p-value (1e-9 + 1e-6 rel). Generators include coarse-grid pools "
             "with mass in score bin 0 and low-complexity pools with up to 200 score bins.",
        note="n_target_bins=None; n_cache >= n_score_bins; pools in which some query column is equidistant from every target column are "
             "refused by the implementation (division by the spread) and counted as rejected_by_sut."),
    "C15": dict(
        technique="property-based testing (Hypothesis) with a string round-trip / direct-slicing oracle + exhaustive small-scope enumeration",
        category="exploration", design_ref="DESIGN.md §3 C15",
        text="Generated search: alphabets, ignore sets, strings, dtypes, complement maps and chunk geometries are drawn by "
             "Hypothesis and every string up to length 5/7 over small alphabets and every (size, overlap) pair up to 12/40 is "
             "enumerated; oracles are the input string itself, a reversed+mapped string model and X[:, :covered]. Bounded "
             "search, not a proof; the enumerated sub-scopes are complete.",
        note="Trusts torch tensor equality and the harness-side encoder/decoder in pbt/gen.py (independent of tangermeme.utils). "
             "Alphabets are printable ASCII without 'N'."),
    "C19": dict(
        technique="property-based testing (Hypothesis): validity predicate over every returned seqlet row against the input track",
        category="exploration", design_ref="DESIGN.md §3 C19",
        text="Random attribution tracks (dyadic-rational noise plus planted positive/negative bumps, some at positions 0..3 and at the "
             "end) are passed to recursive_seqlets (thresholds, min/max lengths, additional_flanks 0-5, torch/numpy, float32/64) and "
             "tfmodisco_seqlets (window, flank, target_fdr); every row must lie inside its example, have a valid example index, p <= "
             "threshold, the table sorted by p, attribution equal to the input sum over its span (exact for float64 dyadic input), "
             "pre-flank length within [min, max]; TF-MoDISco rows must span window+2*flank, report the central-window sum and respect "
             "the suppression radius; the input must be unchanged.",
        note="Degenerate tracks on which a caller raises are counted as rejected_by_sut; the docstring's relation 'flanks only widen the "
             "flank-0 calls' is deliberately not asserted (it does not hold and C19 does not state it). TF-MoDISco caller only accepts float32."),
    "C20": dict(
        technique="property-based testing (Hypothesis): validity predicate against brute-force enumeration of all single substitutions + chained-step metamorphic relation",
        category="exploration", design_ref="DESIGN.md §3 C20",
        text="For generated exact-integer models, sequences (8-40), motif sets (length 1-8 or = L, optionally with the best placement "
             "planted at L-m / 0 / interior), targets, masks, tol and max_iter, each single greedy step is checked against the loss of "
             "every (motif, position 0..L-m) candidate computed by separate forward passes (ties allowed), k-step runs must equal k "
             "chained validated single steps, the loss may never increase and the output must stay one-hot and differ only inside a "
             "window spelling a motif.",
        note="args=None only; when the best improvement lies in (0, tol] both applying it and stopping are accepted (the statement "
             "does not fix this); loss comparisons use a 1e-9 relative tolerance on exact-integer model outputs."),
}

ALL = ["C%02d" % i for i in range(1, 21)]

NOT_YET = "check not built yet in this round (work in progress; see DESIGN.md §7 build order)"


def main():
    checks = []
    for pid in ALL:
        if pid not in CHECKS:
            continue
        c = CHECKS[pid]
        checks.append({
            "property_id": pid,
            "quick_cmd": "/venv/bin/python run_check.py %s --tier quick" % pid,
            "thorough_cmd": "/venv/bin/python run_check.py %s --tier thorough" % pid,
            "evidence_file": "evidence/%s.json" % pid,
            "replay_cmd_template": "/venv/bin/python run_check.py %s --replay {path}" % pid,
            "engine": "hypothesis-pbt",
            "technique": c["technique"],
            "level_claimed": {"category": c["category"], "text": c["text"], "design_ref": c["design_ref"]},
            "level_note": c["note"],
        })
    man = {
        "version": 1,
        "setup_cmd": "/venv/bin/pip install --no-index --find-links /opt/veriftools/wheels hypothesis",
        "hooks": {
            "guard": "TANGERMEME_VERIF",
            "enable": "no source hooks exist; checks import /repo's working tree directly (run_check.py puts /repo first on sys.path, "
                      "numba cache redirected to /verif/.cache keyed by source hash)",
            "baseline_off_cmd": "cd /repo && env -u TANGERMEME_VERIF /venv/bin/python -m pytest -ra -q -p no:cacheprovider "
                                "--timeout=900 --continue-on-collection-errors",
            "source_commits": [],
            "add_only": True,
        },
        "engines": [{
            "name": "hypothesis-pbt", "path": "pbt/harness.py",
            "serves_properties": [c["property_id"] for c in checks],
            "kind_free_text": "Hypothesis 6.168 generators of JSON cases + explicit oracles, collect-then-shrink driver, "
                              "exhaustive small-scope enumeration, sharded over processes; replay = the shrunk case JSON",
        }],
        "checks": checks,
        "not_applicable": [{"property_id": p, "reason": NOT_YET} for p in ALL if p not in CHECKS],
        "notes": "run_check.py <ID> [--tier quick|thorough] [--replay FILE]; VERIF_SEED selects the Hypothesis seed; exit 2 + "
                 "HARNESS-ERROR means the machinery failed and gives no verdict. KNOWN_FINDINGS.txt lists fixed/known findings.",
    }
    with open(os.path.join(HERE, "MANIFEST.json"), "w") as fh:
        json.dump(man, fh, indent=1)
        fh.write("\n")
    print("MANIFEST.json: %d checks, %d not_applicable" % (len(checks), len(man["not_applicable"])))


if __name__ == "__main__":
    main()

import torch, numpy, itertools, collections, os
from tangermeme.predict import predict
from tangermeme.ablate import ablate
from tangermeme.space import space
from tangermeme.marginalize import marginalize
from tangermeme.product import apply_pairwise, apply_product
from tangermeme.ersatz import shuffle, dinucleotide_shuffle, multisubstitute, substitute
from tangermeme.utils import random_one_hot
rs = numpy.random.RandomState(int(os.environ.get("S","0")))
stats = collections.Counter()
class Enc(torch.nn.Module):
    def __init__(s, L, nout, nargs):
        super().__init__(); s.nout=nout
        s.W = torch.tensor(rs.randint(1, 1000, size=(nout, 4, L)), dtype=torch.float64)
        s.p = torch.nn.Parameter(torch.zeros(1, dtype=torch.float64))
    def forward(s, X, *args):
        outs = []
        for k in range(s.nout):
            y = (X * s.W[k]).sum(dim=(1,2))[:, None]
            for j,a in enumerate(args): y = y + (10**6)*(j+1)*a.reshape(len(a), -1).sum(1, keepdim=True)*(k+1)
            outs.append(torch.relu(y)+s.p)
        return outs[0] if s.nout==1 else tuple(outs)
def same(a, b):
    if isinstance(a, torch.Tensor): return torch.equal(a, b)
    return len(a)==len(b) and all(torch.equal(x,y) for x,y in zip(a,b))
def idx(y, *i):
    if isinstance(y, torch.Tensor): return y[i]
    return [t[i] for t in y]
for trial in range(200):
    B, L, nout, nargs = rs.randint(1,5), rs.randint(8,20), rs.randint(1,4), rs.randint(0,3)
    m = Enc(L, nout, nargs)
    X = random_one_hot((B,4,L), random_state=rs.randint(1e6)).double()
    args = tuple(torch.tensor(rs.randint(0,50,size=(B,1)), dtype=torch.float64) for _ in range(nargs)) or None
    # ablate
    n = rs.randint(1,5); s_ = rs.randint(0, L-3); e_ = rs.randint(s_+2, L+1); seed = int(rs.randint(1e6))
    fn = shuffle if rs.rand()<0.5 else dinucleotide_shuffle
    try:
        yb, ya = ablate(m, X, s_, e_, n=n, shuffle_fn=fn, args=args, random_state=seed, device='cpu', batch_size=int(rs.randint(1,7)))
        Xp = fn(X, start=s_, end=e_, n=n, random_state=seed)
        ok = same(yb, predict(m, X, args=args, device='cpu'))
        for i in range(B):
            for j in range(n):
                exp = predict(m, Xp[i,j][None], args=None if args is None else tuple(a[i:i+1] for a in args), device='cpu')
                got = idx(ya, i, j)
                e2 = exp[0] if isinstance(exp, torch.Tensor) else [t[0] for t in exp]
                ok &= (torch.equal(got, e2) if isinstance(got, torch.Tensor) else all(torch.equal(g,x) for g,x in zip(got,e2)))
        stats["ablate ok" if ok else "ablate MISMATCH"]+=1
    except Exception as ex:
        stats["ablate EXC "+type(ex).__name__+str(ex)[:50]]+=1
    # space
    motifs = ["ACG"[:rs.randint(1,4)], "TT", "GA"][:rs.randint(2,4)]
    S = rs.randint(1,4); sp = rs.randint(0,3,size=(S, len(motifs)-1)).tolist()
    try:
        kw = dict(args=args) if args is not None else {}
        yb, ya = space(m, X, motifs, sp, device='cpu', batch_size=int(rs.randint(1,7)), **kw)
        ok = True
        for i in range(B):
            for k in range(S):
                Xk = multisubstitute(X[i:i+1], motifs, sp[k])
                exp = predict(m, Xk, args=None if args is None else tuple(a[i:i+1] for a in args), device='cpu')
                got = idx(ya, i, k); e2 = exp[0] if isinstance(exp, torch.Tensor) else [t[0] for t in exp]
                ok &= (torch.equal(got, e2) if isinstance(got, torch.Tensor) else all(torch.equal(g,x) for g,x in zip(got,e2)))
                gb = idx(yb, i, k); eb = predict(m, X[i:i+1], args=None if args is None else tuple(a[i:i+1] for a in args), device='cpu')
                eb = eb[0] if isinstance(eb, torch.Tensor) else [t[0] for t in eb]
                ok &= (torch.equal(gb, eb) if isinstance(gb, torch.Tensor) else all(torch.equal(g,x) for g,x in zip(gb,eb)))
        stats["space ok" if ok else "space MISMATCH"]+=1
    except Exception as ex:
        stats["space EXC "+type(ex).__name__+str(ex)[:60]]+=1
    # product
    na = rs.randint(1,3); sizes = [rs.randint(1,5) for _ in range(na)]
    pargs = [torch.tensor(rs.randint(0,50,size=(sz,1)), dtype=torch.float64) for sz in sizes]
    try:
        y = apply_product(predict, m, X, pargs, batch_size=int(rs.randint(1,8)), device='cpu')
        ok=True
        for ii in itertools.product(range(B), *[range(sz) for sz in sizes]):
            exp = predict(m, X[ii[0]:ii[0]+1], args=tuple(a[j:j+1] for a,j in zip(pargs, ii[1:])), device='cpu')
            got = idx(y, *ii); e2 = exp[0] if isinstance(exp, torch.Tensor) else [t[0] for t in exp]
            ok &= (torch.equal(got, e2) if isinstance(got, torch.Tensor) else all(torch.equal(g,x) for g,x in zip(got,e2)))
        stats["product ok" if ok else "product MISMATCH"]+=1
        sz = sizes[0]; pa = [torch.tensor(rs.randint(0,50,size=(sz,1)), dtype=torch.float64) for _ in range(na)]
        y = apply_pairwise(predict, m, X, pa, batch_size=int(rs.randint(1,8)), device='cpu')
        ok=True
        for i in range(B):
            for j in range(sz):
                exp = predict(m, X[i:i+1], args=tuple(a[j:j+1] for a in pa), device='cpu')
                got = idx(y, i, j); e2 = exp[0] if isinstance(exp, torch.Tensor) else [t[0] for t in exp]
                ok &= (torch.equal(got, e2) if isinstance(got, torch.Tensor) else all(torch.equal(g,x) for g,x in zip(got,e2)))
        stats["pairwise ok" if ok else "pairwise MISMATCH"]+=1
    except Exception as ex:
        stats["product EXC "+type(ex).__name__+str(ex)[:60]]+=1
for k,v in sorted(stats.items()): print(v,k)

import torch, numpy, math
from tangermeme.tools.fimo import fimo, _pwm_to_mapping
from tangermeme.utils import one_hot_encode
rs = numpy.random.RandomState(0)
found = 0
for trial in range(200):
    w = rs.randint(4, 9)
    pwm = rs.dirichlet(numpy.ones(4)*0.5, size=w).T
    eps, bin_size, thr = 1e-4, 0.1, 10.0**(-rs.randint(1,4))
    lp = numpy.log2(pwm+eps) - math.log2(0.25)
    s, tab = _pwm_to_mapping(lp, bin_size)
    idx = numpy.where(tab < math.log2(thr))[0]
    if len(idx)==0: continue
    t = (idx[0]+s)*bin_size; t32 = float(numpy.float32(t))
    if t32 >= t: continue            # want float32 threshold below the true one
    target = (t32 + t)/2             # score in (t32, t): not a hit by the float64 definition
    # find a sequence whose score is just above t, then lower one entry to hit target
    best = None
    for _ in range(4000):
        seq = rs.randint(0,4,size=w)
        sc = lp[seq, numpy.arange(w)].sum()
        d = sc - target
        if 0 < d < 0.04 and (best is None or d < best[0]): best = (d, seq, sc)
    if best is None: continue
    d, seq, sc = best
    # reduce entry at column 0 so its log-odds drops by d, without changing its rounded int
    j = 0; c = seq[j]
    new_lo = lp[c, j] - d
    if round(new_lo/bin_size) != round(lp[c,j]/bin_size): continue
    pwm2 = pwm.copy(); pwm2[c, j] = 0.25*2**new_lo - eps
    lp2 = numpy.log2(pwm2+eps) - math.log2(0.25)
    sc2 = lp2[seq, numpy.arange(w)].sum()
    s2, tab2 = _pwm_to_mapping(lp2, bin_size)
    if s2 != s or not numpy.array_equal(numpy.nan_to_num(tab2, nan=-1), numpy.nan_to_num(tab, nan=-1)): continue
    if not (t32 < sc2 < t): continue
    X = torch.zeros(1, 4, w+1); X[0, seq, torch.arange(w)] = 1; X[0, 0, w] = 1   # extra base so the window isn't last
    h = fimo({"m": torch.from_numpy(pwm2)}, X, bin_size=bin_size, eps=eps, threshold=thr, reverse_complement=False)[0]
    hit = h[h.start == 0]
    found += 1
    print("t", t, "t32", t32, "score", sc2, "reported:", hit[['score','p-value']].values.tolist(), "threshold", thr)
    if found >= 3: break
print("constructed", found)

"""C17 - GC-matched background loci are valid, disjoint from the input and GC-balanced."""
import collections
import os
import random
import tempfile

import numpy
import pandas
import pyBigWig
from hypothesis import strategies as st

from pbt.harness import Sub, Violation, Rejected, SutRaised, require, sut

from tangermeme.match import extract_matching_loci

PROPERTY = "C17"
LEVEL = "exploration"
RULE = ("cases = (synthetic genome of 1-3 chromosomes built from in_window-sized blocks of prescribed GC fraction incl. 0 and 1 plus N "
        "stretches and an unaligned tail; 5-60 [200 thorough] random input loci; in_window 50-500; out_window <= in_window incl. "
        "equal; GC bin width 0.01-0.1; max_n_perc 0-0.5; optional integer-valued bigWig with signal_beta; chroms; integer seed; "
        "n_jobs) drawn by Hypothesis. Oracle = eligibility model computed from the generated genome/signal: every returned row is an "
        "aligned tile inside its chromosome, unique, in no tile touched by an input locus, N fraction <= max_n_perc, centred "
        "out_window signal <= signal_beta x 1%-quantile of the valid inputs' sums; #returned <= #usable inputs; per GC bin "
        "min(in_b, bg_b) <= matched_b <= bg_b; inputs unmatched only if the eligible background is exhausted; identical frames for "
        "every n_jobs. Tiles whose eligibility is ambiguous (aligned locus end, signal equal to the threshold) widen the bounds. "
        "Non-trivial: some bin needs spill-over (in_b > bg_b) or some candidate tile is masked / N-filtered / signal-filtered.")
ASSUMPTIONS = ["an exception on a valid input is counted as rejected_by_sut (the statement constrains returned loci)",
               "sequences are upper case; signal values are small integers"]


def _genome(case):
    rng = random.Random(case["gseed"])
    W = case["in_window"]
    chroms = {}
    for ci, nb in enumerate(case["blocks"]):
        s = []
        for bi in range(nb):
            gc = rng.choice(case["gc_levels"])
            if case.get("block_gc"):
                gc = case["block_gc"][ci][bi]     # explicit layout (skewed-demand cases); rng.choice above keeps the stream aligned
            s.extend(rng.choice("GC") if rng.random() < gc else rng.choice("AT") for _ in range(W))
        s.extend(rng.choice("ACGT") for _ in range(case["tails"][ci]))
        for _ in range(case["n_runs"]):
            k = rng.randint(0, max(0, len(s) - 2))
            ln = rng.randint(1, max(1, W // 2))
            s[k:k + ln] = "N" * len(s[k:k + ln])
        chroms["chr%d" % (ci + 1)] = "".join(s)
    return chroms


def _signal(case, chroms):
    rs = numpy.random.RandomState(case["gseed"] + 11)
    out = {}
    for n, s in chroms.items():
        v = rs.poisson(case["sig_rate"], size=len(s)).astype(numpy.float64)
        W = case["in_window"]
        for t in range(len(s) // W):
            if rs.rand() < 0.4:
                v[t * W:(t + 1) * W] = 0      # silent tiles so that something passes the threshold
            elif rs.rand() < 0.3:
                v[t * W:(t + 1) * W] = (rs.rand(W) < 0.05)
        # tiles whose whole signal is one tall spike sitting exactly on the first / last base of the centred out_window, or on the
        # base just outside it: a filter window that is off by one base reads them the other way round
        O = case["out_window"]
        left = (W - O) // 2
        for t in range(len(s) // W):
            r = rs.rand()
            if r < 0.25 and O <= W:
                v[t * W:(t + 1) * W] = 0
                pos = [left, left + O - 1, left - 1, left + O][int(rs.randint(0, 4))]
                if 0 <= pos < W:
                    v[t * W + pos] = 40 + int(rs.randint(0, 20))
        out[n] = v
    return out


def matching_case(case, ctx):
    chroms = _genome(case)
    names = list(chroms)
    W, O = case["in_window"], case["out_window"]
    bw_w, mn = case["gc_bin_width"], case["max_n_perc"]
    loci = [[names[c % len(names)], s, e] for c, s, e in case["loci"]]
    loci = [[c, min(s, len(chroms[c]) - 2), min(e, len(chroms[c]))] for c, s, e in loci]
    loci = [[c, s, max(e, s + 1)] for c, s, e in loci]
    df = pandas.DataFrame(loci, columns=["chrom", "start", "end"])
    use_bw = case["bigwig"]
    sig = _signal(case, chroms) if use_bw else None
    sel_chroms = None if case.get("chroms") is None else [names[i % len(names)] for i in case["chroms"]]
    tmp = tempfile.TemporaryDirectory(prefix="c17_")
    try:
        fa = os.path.join(tmp.name, "g.fa")
        with open(fa, "w") as fh:
            for n, s in chroms.items():
                fh.write(">%s\n" % n)
                for k in range(0, len(s), 60):
                    fh.write(s[k:k + 60] + "\n")
        bwp = None
        if use_bw:
            bwp = os.path.join(tmp.name, "s.bw")
            bw = pyBigWig.open(bwp, "w")
            bw.addHeader([(n, len(s)) for n, s in chroms.items()])
            for n in chroms:
                bw.addEntries(n, 0, values=sig[n].tolist(), span=1, step=1)
            bw.close()
        kw = dict(in_window=W, out_window=O, max_n_perc=mn, gc_bin_width=bw_w, bigwig=bwp, signal_beta=case["beta"],
                  chroms=sel_chroms, random_state=case["rs"])
        if case.get("earlier_call_other_loci"):
            # same genome, same bigWig, same settings - but loci with strong signal, i.e. a much higher signal ceiling
            rows2 = []
            for cn, s_ in chroms.items():
                if sig is not None:
                    order = numpy.argsort(-numpy.convolve(sig[cn], numpy.ones(W), mode="valid"))[:3]
                    rows2 += [[cn, int(o), int(o) + W] for o in order]
                else:
                    rows2 += [[cn, W, 2 * W]]
            try:
                extract_matching_loci(pandas.DataFrame(rows2, columns=["chrom", "start", "end"]), fa, n_jobs=1, **kw)
            except Exception:  # noqa: BLE001
                pass
            ctx.label("after_call_with_other_loci")
        df_in = df.copy()
        err = None
        m = m2 = None
        try:
            m = extract_matching_loci(df_in, fa, n_jobs=1, **kw)
        except Exception as e:  # noqa: BLE001 - judged below, once the harness knows whether the input is one the code cannot bin
            err = e
        if err is None:
            require(df_in.equals(df), "loci-frame-modified", "the caller's loci DataFrame was changed")
            if case.get("n_jobs2"):
                m2 = sut(extract_matching_loci, df.copy(), fa, n_jobs=case["n_jobs2"], **kw)
    finally:
        tmp.cleanup()

    def gcbin(seq):
        gc = (seq.count("G") + seq.count("C")) / len(seq)
        return int((gc + bw_w / 2.) // bw_w)

    # ---------------- usable inputs
    wmax = max(W, O)
    usable = collections.Counter()
    n_usable = 0
    valid_sums = []
    for c, s, e in loci:
        mid = s + (e - s) // 2
        a, b = mid - wmax // 2, mid + (wmax + 1) // 2
        if a < 0 or b > len(chroms[c]):
            continue
        if use_bw:
            a2, b2 = mid - O // 2, mid + (O + 1) // 2
            valid_sums.append(float(sig[c][a2:b2].sum()))
        a, b = mid - W // 2, mid + (W + 1) // 2
        seq = chroms[c][a:b]
        if seq.count("N") / len(seq) < mn:
            usable[gcbin(seq)] += 1
            n_usable += 1
    thr = None
    if err is not None:
        # the only refusals the statement leaves open: a GC bin one past the count arrays (bin widths such as 0.06 / 0.08 with a
        # GC = 1.0 window; DESIGN 9, observations) and no input locus fitting its chromosome.  Decided from the generated genome,
        # not from the exception; any other exception on a valid input is reported.
        nb = int(1. / bw_w) + 1
        bins = list(usable)
        for c in (sorted(set(c for c, _, _ in loci)) if sel_chroms is None else sel_chroms):
            for t in range(len(chroms[c]) // W):
                seq = chroms[c][t * W:(t + 1) * W]
                bins.append(gcbin(seq))
        if (bins and max(bins) >= nb) or (use_bw and not valid_sums) or n_usable == 0:
            ctx.label("exception_" + type(err).__name__)
            raise Rejected() from err
        raise SutRaised(err) from err
    if use_bw:
        if not valid_sums:
            raise Rejected()
        thr = float(numpy.nanquantile(numpy.array(valid_sums), 0.01)) * case["beta"]
    # ---------------- eligibility of every tile: True / False / None (ambiguous)
    touched = collections.defaultdict(set)
    maybe_masked = collections.defaultdict(set)
    for c, s, e in loci:
        touched[c].update(range(s // W, (e - 1) // W + 1))
        if e % W == 0:
            maybe_masked[c].add(e // W)
    bg_chroms = sorted(set(c for c, _, _ in loci)) if sel_chroms is None else sel_chroms
    left, right = (W - O) // 2, (W - O + 1) // 2
    elig_lo, elig_hi = collections.Counter(), collections.Counter()
    status = {}
    filtered_any = False
    for c in bg_chroms:
        s = chroms[c]
        for t in range(len(s) // W):
            seq = s[t * W:(t + 1) * W]
            ok = True
            amb = False
            if seq.count("N") / W > mn:
                ok = False
            if t in touched[c]:
                ok = False
            elif t in maybe_masked[c]:
                amb = True
            if ok and use_bw:
                tot = float(sig[c][t * W + left:(t + 1) * W - right].sum())
                if abs(tot - thr) <= 1e-9 * (1 + abs(thr)):
                    amb = True
                elif tot > thr:
                    ok = False
            if not ok:
                filtered_any = True
                status[(c, t)] = False
                continue
            b = gcbin(seq)
            status[(c, t)] = None if amb else True
            elig_hi[b] += 1
            if not amb:
                elig_lo[b] += 1
    # ---------------- returned rows
    got = collections.Counter()
    seen = set()
    desc = "W=%d O=%d bin=%g max_n=%g bigwig=%s beta=%g" % (W, O, bw_w, mn, use_bw, case["beta"])
    for r in m.itertuples(index=False):
        c, s0, e0 = r.chrom, int(r.start), int(r.end)
        require(c in chroms and s0 % W == 0 and e0 == s0 + W and 0 <= s0 and e0 <= len(chroms[c]), "not-an-aligned-tile-inside-chromosome",
                lambda: "%s: row %s:%d-%d (chromosome length %s)" % (desc, c, s0, e0, len(chroms.get(c, ""))))
        t = s0 // W
        require((c, t) not in seen, "tile-returned-twice", lambda: "%s: %s tile %d" % (desc, c, t))
        seen.add((c, t))
        seq = chroms[c][s0:e0]
        require(t not in touched[c], "tile-touched-by-input-locus", lambda: "%s: %s:%d-%d overlaps an input locus" % (desc, c, s0, e0))
        require(seq.count("N") / W <= mn, "tile-exceeds-max-n", lambda: "%s: %s:%d-%d N fraction %.3f" % (desc, c, s0, e0, seq.count("N") / W))
        require(c in bg_chroms, "tile-on-excluded-chromosome", lambda: "%s: %s" % (desc, c))
        if use_bw:
            tot = float(sig[c][s0 + left:e0 - right].sum())
            require(tot <= thr + 1e-9 * (1 + abs(thr)), "tile-exceeds-signal-threshold",
                    lambda: "%s: %s:%d-%d centred out_window signal %g > threshold %g (robust min of inputs x beta)" % (desc, c, s0, e0, tot, thr))
        got[gcbin(seq)] += 1
    require(len(m) <= n_usable, "more-loci-than-usable-inputs", lambda: "%s: %d returned, %d usable inputs" % (desc, len(m), n_usable))
    spill = False
    for b in set(usable) | set(elig_hi) | set(got):
        require(got[b] <= elig_hi[b], "gc-bin-overfilled", lambda: "%s: bin %d: %d returned, %d eligible" % (desc, b, got[b], elig_hi[b]))
        require(got[b] >= min(usable[b], elig_lo[b]), "gc-bin-underfilled",
                lambda: "%s: bin %d: %d returned although %d inputs and %d eligible background tiles fall in it" % (desc, b, got[b], usable[b], elig_lo[b]))
        if usable[b] > elig_hi[b]:
            spill = True
    total_lo = sum(elig_lo.values())
    if len(m) < n_usable:
        require(len(m) >= total_lo, "inputs-unmatched-while-background-remains",
                lambda: "%s: %d usable inputs, %d returned, but %d eligible background tiles exist (per bin: returned %s, eligible %s)" % (
                    desc, n_usable, len(m), total_lo, dict(got), dict(elig_lo)))
    if m2 is not None:
        require(m.reset_index(drop=True).equals(m2.reset_index(drop=True)), "result-depends-on-n_jobs", lambda: "%s: n_jobs=1 vs %d" % (desc, case["n_jobs2"]))
        ctx.label("n_jobs_compared")
    ctx.nt(len(m) >= 1 and (spill or filtered_any))
    if spill:
        ctx.label("spill_over_needed")
    if case.get("block_gc"):
        ctx.label("skewed_demand_layout")
    if use_bw:
        ctx.label("bigwig", "out==in" if O == W else "out<in")
    if elig_hi.get(0, 0) and any(usable[b] > elig_hi[b] for b in usable):
        ctx.label("spill_with_bin0_background")


@st.composite
def strategy(draw, max_loci=60):
    W = draw(st.sampled_from([50, 64, 100, 100, 200, 500]))
    O = draw(st.one_of(st.just(W), st.integers(max(1, W // 4), W), st.just(W // 2)))
    nchr = draw(st.integers(1, 3))
    blocks = [draw(st.integers(6, 30)) for _ in range(nchr)]
    lengths = [b * W for b in blocks]
    n = draw(st.integers(5, max_loci))
    loci = []
    for _ in range(n):
        c = draw(st.integers(0, nchr - 1))
        s = draw(st.integers(0, lengths[c] - 1))
        width = draw(st.one_of(st.integers(1, W), st.integers(1, 2 * W), st.just(W)))
        if draw(st.integers(0, 5)) == 0:
            s = (s // W) * W                     # aligned start
            width = W * draw(st.integers(1, 2))  # aligned end
        loci.append([c, s, s + width])
    levels = draw(st.sampled_from([[0.0, 0.2, 0.4, 0.5, 0.6, 0.8, 1.0], [0.5], [0.0, 1.0], [0.3, 0.4, 0.5], [0.0, 0.0, 0.5, 0.6]]))
    case = {"gseed": draw(st.integers(0, 10 ** 6)), "in_window": W, "out_window": O, "blocks": blocks,
            "tails": [draw(st.integers(0, W - 1)) for _ in range(nchr)], "n_runs": draw(st.integers(0, 4)), "gc_levels": levels,
            "loci": loci, "gc_bin_width": draw(st.sampled_from([0.01, 0.02, 0.02, 0.05, 0.1, 0.03, 0.06, 0.08])),
            "max_n_perc": draw(st.sampled_from([0.0, 0.1, 0.1, 0.3, 0.5])), "bigwig": draw(st.booleans()),
            "beta": draw(st.sampled_from([0.5, 1.0, 0.25])), "sig_rate": draw(st.sampled_from([0.3, 1.0, 3.0])),
            "rs": draw(st.integers(0, 10 ** 6))}
    if draw(st.integers(0, 3)) == 0:
        # skewed demand: every input sits in a block of one extreme GC level (and masks it), eligible background only exists at
        # levels further and further away - the unmatched inputs have to spill over many bins, upwards or downwards
        ext, others = draw(st.sampled_from([(0.9, [0.1, 0.3, 0.5]), (0.1, [0.5, 0.7, 0.9]), (0.8, [0.2]), (1.0, [0.0, 0.4]), (0.7, [0.1, 0.2, 0.9])]))
        layout = [[ext if draw(st.integers(0, 3)) == 0 else draw(st.sampled_from(others)) for _ in range(b)] for b in blocks]
        layout[0][draw(st.integers(0, blocks[0] - 1))] = ext
        spots = [(c, b) for c in range(nchr) for b in range(blocks[c]) if layout[c][b] == ext]
        loci = []
        for _ in range(draw(st.integers(3, 25))):
            c, b = draw(st.sampled_from(spots))
            off = draw(st.integers(0, W - 1))
            loci.append([c, b * W + off, b * W + off + draw(st.integers(1, W - off))])
        case["block_gc"], case["loci"] = layout, loci
    if draw(st.integers(0, 3)) == 0:
        case["chroms"] = sorted(draw(st.sets(st.integers(0, nchr - 1), min_size=1, max_size=nchr)))
    case["earlier_call_other_loci"] = draw(st.integers(0, 3)) == 0
    if draw(st.integers(0, 9)) == 0:
        case["n_jobs2"] = draw(st.sampled_from([2, 3, 4]))
        if draw(st.integers(0, 3)) != 3:
            # a comparison that can tell: several chromosomes in ascending size (any re-ordering of the per-chromosome work shows),
            # few inputs and many same-GC tiles, so that which of the eligible tiles are drawn depends on the seeded shuffle alone
            nchr2 = draw(st.integers(2, 3))
            case["blocks"] = sorted(draw(st.integers(8, 30)) for _ in range(nchr2))
            case["tails"] = [draw(st.integers(0, W - 1)) for _ in range(nchr2)]
            case["gc_levels"] = draw(st.sampled_from([[0.5], [0.4, 0.5], [0.3, 0.4, 0.5]]))
            case["gc_bin_width"] = draw(st.sampled_from([0.1, 0.05, 0.08]))
            case["loci"] = [[draw(st.integers(0, nchr2 - 1)), s_, s_ + draw(st.integers(1, W))]
                            for s_ in [draw(st.integers(0, case["blocks"][0] * W - 1)) for _ in range(draw(st.integers(2, 8)))]]
            case.pop("block_gc", None)
            case.pop("chroms", None)
            case["n_runs"] = draw(st.integers(0, 1))
    return case


def subchecks(tier):
    return [Sub("matching", matching_case, strategy=(lambda: strategy(60)) if tier == "quick" else (lambda: strategy(200)),
                n_quick=600, n_thorough=20000, shards_quick=4, budget_quick=200.0)]

"""C07 - a model is left behaviourally unchanged by every call, even one that fails."""
import copy
import itertools
import warnings

import numpy
import torch
from hypothesis import strategies as st

from pbt.harness import Sub, Violation, Rejected, SutRaised, require, sut, HarnessError
from pbt import nets

from tangermeme.deep_lift_shap import deep_lift_shap
from tangermeme.predict import predict
from tangermeme.ism import saturation_mutagenesis
from tangermeme.marginalize import marginalize, marginalize_annotations
from tangermeme.ablate import ablate, ablate_annotations
from tangermeme.space import space
from tangermeme.variant_effect import substitution_effect, deletion_effect, insertion_effect
from tangermeme.product import apply_pairwise, apply_product
from tangermeme.design import greedy_substitution
from tangermeme.ersatz import dinucleotide_shuffle

import numba  # noqa: E402
numba.set_num_threads(1)

PROPERTY = "C07"
LEVEL = "fault_enumeration"
RULE = ("cases = (API call on a shared model, injected fault): the fault is an exception raised at the k-th forward pass of an identity "
        "layer inside the model, at the k-th call of the reference generator, or at the k-th backward pass of an identity autograd "
        "function; a fault-free run counts K / K_r / K_b and every k = 1..K is injected (enumerated completely) for deep_lift_shap and "
        "for predict, saturation_mutagenesis, marginalize(+_annotations), ablate(+_annotations), space, substitution/deletion/"
        "insertion_effect, apply_pairwise/apply_product and greedy_substitution with func in {predict, deep_lift_shap}; plus "
        "input-validation failures (sequence with an all-zero column, integer X, out-of-range target, mis-shaped args / references, "
        "RandomState seed with a generator function). Histories: every ordered pair of (call, fault) on one shared model is enumerated, "
        "longer histories are drawn by Hypothesis. Oracle after every call or raise, against a pristine deep copy: no forward / "
        "backward (pre-)hooks and no `handles` attribute on any module, state_dict byte-identical, requires_grad flags and .grad "
        "unchanged, probe forward output and autograd gradients w.r.t. input and parameters torch.equal to the copy's, and a "
        "successful call returns exactly what it returns on a fresh copy. Non-trivial: the fault fired while a tangermeme hook was "
        "registered, or the history contains a call after a failed call.")
ASSUMPTIONS = ["plain leftover attributes (input, output, _NON_LINEAR_OPS) are allowed by the statement and not flagged",
               "the model may be left in evaluation mode", "cpu only"]

L0 = 12


class InjectedFault(Exception):
    pass


class Ctl:
    """Fault controller shared by the layers of one model instance."""

    def __init__(self):
        self.reset()

    def reset(self):
        self.fcount = self.bcount = self.rcount = 0
        self.arm = None            # ("forward" | "backward" | "reference", k)
        self.fired = False
        self.hooks_at_fault = None
        self.model = None

    def _fire(self):
        self.fired = True
        self.hooks_at_fault = _count_hooks(self.model) if self.model is not None else None
        self.arm = None
        raise InjectedFault()


class FaultLayer(torch.nn.Module):
    def __init__(self, ctl):
        super().__init__()
        self.ctl = [ctl]          # hidden from deepcopy sharing? (list keeps it a plain attribute)

    def forward(self, x):
        c = self.ctl[0]
        c.fcount += 1
        if c.arm == ("forward", c.fcount):
            c._fire()
        return x


class _BackFn(torch.autograd.Function):
    @staticmethod
    def forward(ctx, x, ctl):
        ctx.ctl = ctl
        return x.view_as(x)

    @staticmethod
    def backward(ctx, g):
        c = ctx.ctl
        c.bcount += 1
        if c.arm == ("backward", c.bcount):
            c._fire()
        return g, None


class BackFaultLayer(torch.nn.Module):
    def __init__(self, ctl):
        super().__init__()
        self.ctl = [ctl]

    def forward(self, x):
        return _BackFn.apply(x, self.ctl[0])


class Net(torch.nn.Module):
    def __init__(self, seed, ctl):
        super().__init__()
        g = torch.Generator().manual_seed(seed)
        r = lambda *s: torch.randn(*s, generator=g, dtype=torch.float64)
        self.conv1 = torch.nn.Conv1d(4, 6, 3, padding=1, dtype=torch.float64)
        self.bn = torch.nn.BatchNorm1d(6, dtype=torch.float64)
        self.act1 = torch.nn.ReLU()
        self.fault = FaultLayer(ctl)
        self.pool = torch.nn.MaxPool1d(2)
        self.conv2 = torch.nn.Conv1d(6, 5, 3, padding=1, dtype=torch.float64)
        self.act2 = torch.nn.Tanh()
        self.bfault = BackFaultLayer(ctl)
        self.drop = torch.nn.Dropout(0.3)
        self.gap = torch.nn.AdaptiveAvgPool1d(1)
        self.flat = torch.nn.Flatten()
        self.lin = torch.nn.Linear(5, 3, dtype=torch.float64)
        self.wa = torch.nn.Parameter(r(2, 3))
        with torch.no_grad():
            for p in self.parameters():
                p.copy_(r(*p.shape) * 0.8)
            self.bn.running_mean.copy_(r(6) * 0.3)
            self.bn.running_var.copy_(r(6).abs() + 0.5)

    def forward(self, X, a=None):
        h = self.act1(self.bn(self.conv1(X)))
        h = self.pool(self.fault(h))
        h = self.bfault(self.act2(self.conv2(h)))
        h = self.lin(self.flat(self.gap(self.drop(h))))
        if a is not None:
            h = h + a.to(h.dtype) @ self.wa
        return h


def _count_hooks(model):
    n = 0
    for m in model.modules():
        n += len(m._forward_hooks) + len(m._forward_pre_hooks) + len(m._backward_hooks) + len(m._backward_pre_hooks)
    return n


def make_model(seed):
    ctl = Ctl()
    m = Net(seed, ctl).eval()
    ctl.model = m
    return m, ctl


def _probe(model):
    """forward output and ordinary gradients on a fixed probe batch, eval mode, fault layers disarmed"""
    Xp = nets.one_hot([[0, 1, 2, 3, 0, 1, 2, 3, 3, 2, 1, 0], [3, 3, 2, 2, 1, 1, 0, 0, 1, 2, 3, 0]]).requires_grad_(True)
    modes = [(m, m.training) for m in model.modules()]     # per-module flags: the probe itself must not change the model's state
    model.eval()
    with torch.enable_grad():
        y = model(Xp)
        grads = torch.autograd.grad((y * torch.tensor([1.0, -2.0, 3.0], dtype=torch.float64)).sum(),
                                    [Xp] + [p for p in model.parameters() if p.requires_grad], allow_unused=True)
    for m, flag in modes:
        m.training = flag
    return y.detach(), [None if g is None else g.detach() for g in grads]


HOOK_ATTRS = ("_forward_hooks", "_forward_pre_hooks", "_backward_hooks", "_backward_pre_hooks")


def _hook_table(model):
    """every hook currently registered, by module and hook dictionary: the user's own hooks must survive, nothing may be added"""
    return {(name, attr): [id(h) for h in getattr(m, attr).values()] for name, m in model.named_modules() for attr in HOOK_ATTRS}


def snapshot(model):
    return {"hooks": _hook_table(model),
            "state": {k: v.clone() for k, v in model.state_dict().items()},
            "req": [p.requires_grad for p in model.parameters()],
            "grad": [None if p.grad is None else p.grad.clone() for p in model.parameters()],
            "probe": _probe(model)}


def check_unchanged(model, snap, ctl, where):
    ctl.arm = None
    now = _hook_table(model)
    for name, m in model.named_modules():
        for attr in HOOK_ATTRS:
            before, after = snap["hooks"][(name, attr)], now[(name, attr)]
            require(all(h in before for h in after), "leftover-hook", lambda: "%s: module %r has %d new entr(ies) in %s" % (
                where, name or type(m).__name__, len([h for h in after if h not in before]), attr))
            require(all(h in after for h in before), "user-hook-removed", lambda: "%s: module %r lost a hook the caller had registered in %s" % (
                where, name or type(m).__name__, attr))
        require(not hasattr(m, "handles"), "leftover-hook-handles", lambda: "%s: module %r still has a `handles` attribute" % (where, name or type(m).__name__))
    st_ = model.state_dict()
    for k, v in snap["state"].items():
        require(k in st_ and torch.equal(st_[k], v), "state-dict-changed", lambda: "%s: %s" % (where, k))
    for p, r, g in zip(model.parameters(), snap["req"], snap["grad"]):
        require(p.requires_grad == r, "requires-grad-changed", where)
        require((p.grad is None) == (g is None) and (g is None or torch.equal(p.grad, g)), "param-grad-changed", where)
    try:
        y, grads = _probe(model)
    except Exception as e:  # noqa: BLE001
        raise Violation("ordinary-forward-backward-broken", "%s: a plain forward+backward pass now raises %s: %s" % (where, type(e).__name__, str(e)[:150]))
    y0, g0 = snap["probe"]
    require(torch.equal(y, y0), "forward-output-changed", where)
    for a, b in zip(grads, g0):
        require((a is None) == (b is None) and (a is None or torch.equal(a, b)), "ordinary-gradient-changed",
                lambda: "%s: max |diff| %.3g" % (where, (a - b).abs().max().item()))


# ------------------------------------------------------------------ operations
X4 = [[0, 1, 2, 3, 1, 1, 0, 2, 3, 3, 0, 1], [2, 2, 0, 1, 3, 0, 0, 1, 2, 3, 1, 0], [1, 0, 3, 2, 2, 1, 0, 3, 0, 1, 2, 3]]


def _X():
    return nets.one_hot(X4)


def _ref_fn(ctl):
    def ref(X, n=1, random_state=None, **kw):
        ctl.rcount += 1
        if ctl.arm == ("reference", ctl.rcount):
            ctl._fire()
        return dinucleotide_shuffle(X, n=n, random_state=random_state)
    return ref


def _dls_kw(ctl):
    return dict(references=_ref_fn(ctl), n_shuffles=3, random_state=3, batch_size=4, device="cpu")


def _ann():
    return torch.tensor([[0, 1, 5], [2, 4, 9], [1, 0, 3]])


OPS = {
    "predict": lambda m, c: predict(m, _X(), batch_size=2, device="cpu"),
    "dls": lambda m, c: deep_lift_shap(m, _X(), **_dls_kw(c)),
    "dls_raw_hyp": lambda m, c: deep_lift_shap(m, _X(), hypothetical=True, target=2, **_dls_kw(c)),
    "dls_default_refs": lambda m, c: deep_lift_shap(m, _X(), n_shuffles=2, random_state=1, batch_size=3, device="cpu"),
    "ism": lambda m, c: saturation_mutagenesis(m, _X()[:2], start=2, end=6, batch_size=5, device="cpu"),
    "marginalize": lambda m, c: marginalize(m, _X(), "ACG", device="cpu", batch_size=2),
    "marginalize_dls": lambda m, c: marginalize(m, _X(), "ACG", func=deep_lift_shap, **_dls_kw(c)),
    "marginalize_annotations": lambda m, c: marginalize_annotations(m, _X(), _X()[:2], _ann(), device="cpu"),
    "ablate": lambda m, c: ablate(m, _X(), 2, 9, n=2, random_state=0, device="cpu", batch_size=4),
    "ablate_dls": lambda m, c: ablate(m, _X(), 2, 9, n=2, random_state=0, func=deep_lift_shap, additional_func_kwargs=dict(
        references=_ref_fn(c), n_shuffles=2, batch_size=3, device="cpu")),
    "ablate_annotations": lambda m, c: ablate_annotations(m, _X(), _ann(), n=2, random_state=0, device="cpu"),
    "space": lambda m, c: space(m, _X(), ["AC", "GT"], [[1], [3]], device="cpu", batch_size=2),
    "space_dls": lambda m, c: space(m, _X(), ["AC", "GT"], [[1]], func=deep_lift_shap, **_dls_kw(c)),
    "substitution_effect": lambda m, c: substitution_effect(m, _X(), torch.tensor([[0, 2, 1], [2, 5, 3]]), device="cpu"),
    "deletion_effect": lambda m, c: deletion_effect(m, _X(), torch.tensor([[0, 2], [1, 11], [2, 0]]), device="cpu"),
    "deletion_effect_dls": lambda m, c: deletion_effect(m, _X(), torch.tensor([[0, 2], [1, 11], [2, 0]]), func=deep_lift_shap, **_dls_kw(c)),
    "insertion_effect": lambda m, c: insertion_effect(m, _X(), torch.tensor([[0, 2, 1], [1, 0, 3]]), device="cpu"),
    "apply_pairwise": lambda m, c: apply_pairwise(predict, m, _X(), [torch.tensor([[1.0, 2.0], [0.5, -1.0]], dtype=torch.float64)], batch_size=4, device="cpu"),
    "apply_product": lambda m, c: apply_product(predict, m, _X(), [torch.tensor([[1.0, 2.0], [0.5, -1.0], [0.0, 3.0]], dtype=torch.float64)], batch_size=5, device="cpu"),
    "greedy_substitution": lambda m, c: greedy_substitution(m, _X()[:1], ["ACG", "TT"], torch.tensor([[2.0, -1.0, 0.5]], dtype=torch.float64), max_iter=2, device="cpu"),
}

# calls that fail in input validation / set-up (no injected fault needed)
def _X_with_N():
    X = _X()
    X[1, :, 4] = 0
    return X


INVALID = {
    "dls_sequence_with_N": lambda m, c: deep_lift_shap(m, _X_with_N(), n_shuffles=2, random_state=0, device="cpu"),
    "dls_int8_input": lambda m, c: deep_lift_shap(m, _X().to(torch.int8), **_dls_kw(c)),
    "dls_target_out_of_range": lambda m, c: deep_lift_shap(m, _X(), target=7, **_dls_kw(c)),
    "dls_args_wrong_leading_dim": lambda m, c: deep_lift_shap(m, _X(), args=(torch.zeros(2, 2, dtype=torch.float64),), **_dls_kw(c)),
    "dls_reference_tensor_wrong_shape": lambda m, c: deep_lift_shap(m, _X(), references=torch.zeros(3, 2, 4, L0 - 1, dtype=torch.float64), device="cpu"),
    "dls_reference_tensor_too_few_examples": lambda m, c: deep_lift_shap(m, _X(), references=nets.one_hot([[X4[0]], [X4[1]]]), device="cpu"),
    "dls_randomstate_seed_with_function": lambda m, c: deep_lift_shap(m, _X(), n_shuffles=2, random_state=numpy.random.RandomState(0), device="cpu"),
    "dls_bad_additional_op": lambda m, c: deep_lift_shap(m, _X(), additional_nonlinear_ops={torch.nn.Tanh: lambda mod, gi, go: (_ for _ in ()).throw(InjectedFault())}, **_dls_kw(c)),
    "predict_args_mismatch": lambda m, c: predict(m, _X(), args=(torch.zeros(2, 2),), device="cpu"),
    "marginalize_dls_motif_too_long": lambda m, c: marginalize(m, _X(), "ACGTACGTACGTACGT", func=deep_lift_shap, **_dls_kw(c)),
    "ism_int8": lambda m, c: saturation_mutagenesis(m, _X().to(torch.int8), device="cpu", batch_size=7),
}

ALLOPS = dict(OPS)
ALLOPS.update(INVALID)


def _same(a, b):
    if isinstance(a, torch.Tensor):
        return isinstance(b, torch.Tensor) and a.shape == b.shape and torch.equal(a, b)
    if isinstance(a, (list, tuple)):
        return isinstance(b, (list, tuple)) and len(a) == len(b) and all(_same(x, y) for x, y in zip(a, b))
    return a == b


def _fresh_result(seed, name, variant=None):
    m, c = make_model(seed)
    apply_variant(m, variant)
    with warnings.catch_warnings():
        warnings.simplefilter("ignore")
        try:
            return ("ok", ALLOPS[name](m, c), (c.fcount, c.rcount, c.bcount))
        except Exception as e:  # noqa: BLE001
            return ("raised", type(e).__name__, (c.fcount, c.rcount, c.bcount))


_fresh_cache = {}


def fresh(seed, name, variant=None):
    variant = variant if variant == "user_hooks" else None      # the other variants do not change what a call returns
    key = (seed, name, variant)
    if key not in _fresh_cache:
        _fresh_cache[key] = _fresh_result(seed, name, variant)
    return _fresh_cache[key]


def apply_variant(model, variant):
    """Initial states a user's model can legitimately be in when it is handed over."""
    if variant == "frozen_param":
        model.conv1.bias.requires_grad_(False)       # e.g. a partly frozen backbone: the flags must survive every call
        model.lin.weight.requires_grad_(False)
    elif variant == "user_hooks":
        # the caller's own hooks (an old-style backward hook on a non-linearity, a forward hook on a convolution) are part of the
        # model: they must still be there afterwards, and nothing else may be
        with warnings.catch_warnings():
            warnings.simplefilter("ignore")
            model.act1.register_backward_hook(lambda m, gi, go: None)
        model.conv2.register_forward_hook(lambda m, i, o: None)
    elif variant == "bn_train_root_eval":
        model.eval()
        model.bn.train()                             # e.g. a layer swapped in after model.eval(): functions that evaluate the model must not update its buffers
        model.drop.train()


def run_history(case, ctx):
    seed = case["seed"]
    model, ctl = make_model(seed)
    apply_variant(model, case.get("variant"))
    if case.get("variant"):
        ctx.label("variant_" + case["variant"])
    snap = snapshot(model)
    ctl.fcount = ctl.bcount = ctl.rcount = 0
    failed_before = False
    nt = False
    for step, (name, fault) in enumerate(case["history"]):
        ctl.fcount = ctl.bcount = ctl.rcount = 0
        ctl.fired = False
        ctl.arm = None if fault is None else (fault[0], fault[1])
        where = "step %d %s%s" % (step, name, "" if fault is None else " with %s fault #%d" % (fault[0], fault[1]))
        with warnings.catch_warnings():
            warnings.simplefilter("ignore")
            try:
                out = ("ok", ALLOPS[name](model, ctl))
            except Exception as e:  # noqa: BLE001
                out = ("raised", type(e).__name__)
        if fault is not None and not ctl.fired:
            # the call ended (returned or raised for a reason of its own) before reaching the enumerated crash point: the invariants
            # below still apply to whatever happened
            ctl.arm = None
            ctx.label("crash_point_not_reached")
        if ctl.fired and ctl.hooks_at_fault:
            nt = True
            ctx.label("fault_fired_with_hooks_registered")
        if failed_before:
            nt = True
        check_unchanged(model, snap, ctl, where + (" (raised %s)" % out[1] if out[0] == "raised" else ""))
        if fault is None:
            ref = fresh(seed, name, case.get("variant"))
            if ref[0] == "ok":
                require(out[0] == "ok", "call-fails-on-used-model", lambda: "%s raised %s on the shared model but succeeds on a fresh copy" % (where, out[1]))
                require(_same(out[1], ref[1]), "result-differs-from-fresh-copy", lambda: "%s after %r" % (where, case["history"][:step]))
            else:
                require(out[0] == "raised", "call-succeeds-only-on-used-model", where)
        if out[0] == "raised":
            failed_before = True
            ctx.label("raised_" + name)
        ctx.label("op_" + name)
    ctx.nt(nt)
    ctx.extra["inner"] = len(case["history"])


# ------------------------------------------------------------------ enumerations
def _crash_points(seed, names):
    pts = []
    for name in names:
        r = fresh(seed, name)
        if r[0] != "ok":
            # the fault-free call itself fails on this tree: no crash points to enumerate; the plain call is still examined
            pts.append((name, None))
            continue
        K, Kr, Kb = r[2]
        pts += [(name, ("forward", k)) for k in range(1, K + 1)]
        pts += [(name, ("reference", k)) for k in range(1, Kr + 1)]
        pts += [(name, ("backward", k)) for k in range(1, Kb + 1)]
    return pts


def dls_enum(tier):
    cases = []
    for seed in ((1,) if tier == "quick" else (1, 2, 3)):
        for name, fault in _crash_points(seed, ["dls", "dls_raw_hyp", "dls_default_refs"]):
            cases.append({"seed": seed, "history": [[name, None if fault is None else list(fault)]]})
        for name in INVALID:
            cases.append({"seed": seed, "history": [[name, None]]})
        for variant in ("frozen_param", "bn_train_root_eval", "user_hooks"):
            for name in ALLOPS:
                cases.append({"seed": seed, "variant": variant, "history": [[name, None]]})
            for name, fault in _crash_points(seed, ["dls"]):
                cases.append({"seed": seed, "variant": variant, "history": [[name, None if fault is None else list(fault)]]})
    return cases


def api_enum(tier):
    cases = []
    names = [n for n in OPS if not n.startswith("dls")]
    for seed in ((1,) if tier == "quick" else (1, 2)):
        for name, fault in _crash_points(seed, names):
            cases.append({"seed": seed, "history": [[name, None if fault is None else list(fault)]]})
        for name in names:
            cases.append({"seed": seed, "history": [[name, None]]})
    return cases


def _steps(seed, reduced):
    """(call, fault) alphabet for histories: every call fault-free, every invalid call, and for each call its first, middle and last crash point"""
    steps = [(n, None) for n in ALLOPS]
    for name in OPS:
        if fresh(seed, name)[0] != "ok":
            continue
        K, Kr, Kb = fresh(seed, name)[2]
        for kind, kmax in (("forward", K), ("reference", Kr), ("backward", Kb)):
            ks = sorted(set([1, (kmax + 1) // 2, kmax])) if kmax else []
            if reduced:
                ks = ks[-1:]
            steps += [(name, (kind, k)) for k in ks]
    return steps


def pair_enum(tier):
    seed = 1
    steps = _steps(seed, reduced=(tier == "quick"))
    failing = [s for s in steps if s[1] is not None or s[0] in INVALID]
    cases = []
    # every (failing step, any step) ordered pair and every (any, failing) pair
    seen = set()
    for a in steps:
        for b in steps:
            if a not in failing and b not in failing:
                continue
            if tier == "quick" and a not in failing:
                continue
            key = (a, b)
            if key in seen:
                continue
            seen.add(key)
            cases.append({"seed": seed, "history": [[a[0], None if a[1] is None else list(a[1])], [b[0], None if b[1] is None else list(b[1])]]})
    return cases


@st.composite
def history_strategy(draw):
    seed = draw(st.sampled_from([1, 2, 3]))
    steps = _steps(seed, reduced=False)
    n = draw(st.integers(3, 4))
    hist = []
    for _ in range(n):
        name, fault = draw(st.sampled_from(steps))
        hist.append([name, None if fault is None else list(fault)])
    return {"seed": seed, "history": hist, "variant": draw(st.sampled_from([None, None, "frozen_param", "bn_train_root_eval", "user_hooks"]))}


def subchecks(tier):
    return [
        Sub("dls_crash_points", run_history, enum=dls_enum, exhaustive=True, shards_quick=2, shards_thorough=8,
            desc="every k-th forward / reference-generator / backward crash point of three deep_lift_shap configurations plus 11 input-validation "
                 "failures; every call and every deep_lift_shap crash point again on a model with frozen parameters and on a model whose root "
                 "is in eval mode while BatchNorm/Dropout are in training mode"),
        Sub("api_crash_points", run_history, enum=api_enum, exhaustive=True, shards_quick=4, shards_thorough=8,
            desc="every k-th forward / reference / backward crash point of the 17 other model-taking API calls (func = predict and deep_lift_shap)"),
        Sub("history_pairs", run_history, enum=pair_enum, exhaustive=True, shards_quick=4, shards_thorough=16, budget_quick=200.0,
            desc="ordered pairs (failing step, any step) [+ (any, failing) in thorough] over the alphabet of fault-free calls, invalid calls and first/middle/last crash points"),
        Sub("histories", run_history, strategy=history_strategy, n_quick=60, n_thorough=12000, shards_quick=2, shards_thorough=16),
    ]

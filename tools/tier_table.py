#!/venv/bin/python
"""Prints 'check | cases (non-trivial) | wall' rows from evidence/*.json (for DESIGN.md section 8)."""
import json, glob
for f in sorted(glob.glob('/verif/evidence/C*.json')):
    e = json.load(open(f)); c = e['coverage']
    ex = sum(v.get('enum_done', 0) for v in c['per_subcheck'].values())
    print("| %s | %s (%s)%s | %.0f s | tier=%s seed=%s |" % (e['property_id'], format(c['evaluations'], ',').replace(',', ' '),
          format(c['distinct_nontrivial'], ',').replace(',', ' '), (", %d enumerated" % ex) if ex else "", e['wall_s'], e['tier'], e['seed']))

import torch, numpy, time, numba
from tangermeme.tools.tomtom import tomtom
rs = numpy.random.RandomState(1)
def rp(w, conc=0.5): return rs.dirichlet(numpy.ones(4)*conc, size=w).T
Qs = [rp(rs.randint(1,20)) for _ in range(9)]
Ts = [rp(rs.randint(1,20)) for _ in range(8)]
base = [tomtom([q], Ts, n_jobs=1) for q in Qs]
ok = True
for nj in (1,2,3,5,16):
    for rep in range(3):
        perm = rs.permutation(len(Qs))
        r = tomtom([Qs[i] for i in perm], Ts, n_jobs=nj)
        for k,i in enumerate(perm):
            if not torch.equal(r[:,k], base[i][:,0]): ok=False; print("diff", nj, i)
print("bitwise alone-vs-list:", ok, "threads after:", numba.get_num_threads())
full = tomtom(Qs, Ts, n_jobs=4)
nn = tomtom(Qs, Ts, n_jobs=4, n_nearest=3)
print(nn.shape, torch.equal(nn[0], torch.sort(full[0], dim=1).values[:, :3]))

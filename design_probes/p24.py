import torch, numpy, itertools, collections
from tangermeme.utils import one_hot_encode, characters, reverse_complement
stats = collections.Counter()
for dt in [torch.int8, torch.uint8, torch.int16, torch.int32, torch.int64, torch.float16, torch.bfloat16, torch.float32, torch.float64, torch.bool]:
    try:
        o = one_hot_encode("ACNGT", dtype=dt)
        c = characters(o, allow_N=True)
        print(dt, o.dtype, c)
    except Exception as e:
        print(dt, "EXC", type(e).__name__, str(e)[:80])
# alphabets
for alpha, ign in [(['A'], ['N']), (['x','y','z'], []), (list("ACGTB"), ['N','-']), (['N','A'], ['X'])]:
    chars = alpha+ign
    n=0
    for L in range(0,5):
        for s in itertools.product(chars, repeat=L):
            s=''.join(s)
            try:
                o = one_hot_encode(s, alphabet=alpha, ignore=ign)
                back = characters(o, alphabet=alpha, allow_N=True) if L>0 else ''
                exp = ''.join('N' if ch in ign else ch for ch in s)
                if back != exp: stats[f"roundtrip mismatch alpha={alpha} s={s!r} back={back!r}"]+=1
                n+=1
            except Exception as e:
                stats[f"EXC alpha={alpha} L={L} {type(e).__name__} {str(e)[:50]}"]+=1
    print(alpha, ign, n)
try:
    one_hot_encode("ACGX"); print("no raise on illegal")
except ValueError as e: print("illegal -> ValueError")
print(reverse_complement("ACGTN"), reverse_complement(reverse_complement("ACGTNA")))
cm = {"A":"B","B":"A","C":"C"}
s = "ABCCAB"; print(reverse_complement(s, cm), characters(reverse_complement(one_hot_encode(s, alphabet=list("ABC")), cm), alphabet=list("ABC")))
for k,v in list(stats.items())[:12]: print(v,k)

#!/opt/veriftools/pyvenv/bin/python
"""Development aid: validate MANIFEST.json and evidence/*.json against the given schemas."""
import glob, json, sys, os
import jsonschema
H = os.path.dirname(os.path.dirname(os.path.abspath(__file__)))
ok = True
def val(path, schema):
    global ok
    try:
        jsonschema.validate(json.load(open(path)), json.load(open(schema)))
        print("ok  ", os.path.relpath(path, H))
    except Exception as e:
        ok = False
        print("FAIL", path, str(e)[:300])
val(H + "/MANIFEST.json", "/root/.vp/MANIFEST.schema.json")
for f in sorted(glob.glob(H + "/evidence/*.json")):
    val(f, "/root/.vp/EVIDENCE.schema.json")
sys.exit(0 if ok else 1)

import numpy, pandas, pyBigWig, pyfaidx, os, tempfile, time
from tangermeme.match import extract_matching_loci
print("pyBigWig numpy:", pyBigWig.numpy)
d = tempfile.mkdtemp()
rs = numpy.random.RandomState(0)
def block(n, gc):
    return ''.join(rs.choice(list("ACGT"), p=[(1-gc)/2, gc/2, gc/2, (1-gc)/2], size=n))
W=50
chroms = {}
sig = {}
for c in ("chr1","chr2"):
    s = ''.join(block(W, rs.choice([0.0,0.2,0.4,0.5,0.6,0.8])) for _ in range(60))
    s = s[:500] + "N"*70 + s[570:]
    chroms[c] = s
    sig[c] = rs.poisson(1.0, size=len(s)).astype(float)
fa = os.path.join(d, "g.fa")
with open(fa, "w") as f:
    for c,s in chroms.items():
        f.write(f">{c}\n")
        for i in range(0, len(s), 60): f.write(s[i:i+60]+"\n")
bwp = os.path.join(d, "s.bw")
bw = pyBigWig.open(bwp, "w")
bw.addHeader([(c, len(s)) for c,s in chroms.items()])
for c in chroms:
    bw.addEntries(c, 0, values=sig[c].tolist(), span=1, step=1)
bw.close()
loci = pandas.DataFrame({"chrom": rs.choice(["chr1","chr2"], size=15), "start": rs.randint(100, 2800, size=15)})
loci["end"] = loci["start"] + rs.randint(10, 80, size=15)
for iw, ow in ((W, 20), (W, W)):
    t=time.time()
    m = extract_matching_loci(loci, fa, in_window=iw, out_window=ow, bigwig=bwp, gc_bin_width=0.1, random_state=0, n_jobs=1, signal_beta=0.5)
    # check signals
    sums = []
    for r in m.itertuples():
        mid = (r.start + r.end)//2
        l = mid - ow//2; rr = mid + (ow+1)//2
        sums.append(sig[r.chrom][l:rr].sum())
    # threshold
    lc = []
    for r in loci.itertuples():
        mid = r.start + (r.end-r.start)//2
        lc.append(sig[r.chrom][mid-ow//2: mid+(ow+1)//2].sum())
    thr = numpy.quantile(lc, 0.01)*0.5
    print("in",iw,"out",ow,"n matched",len(m),"threshold",thr,"max matched signal",max(sums) if sums else None, "time", round(time.time()-t,2))
t=time.time()
m1 = extract_matching_loci(loci, fa, in_window=W, out_window=20, gc_bin_width=0.1, random_state=0, n_jobs=1)
m2 = extract_matching_loci(loci, fa, in_window=W, out_window=20, gc_bin_width=0.1, random_state=0, n_jobs=3)
print("n_jobs same:", m1.equals(m2), len(m1), "time", time.time()-t)

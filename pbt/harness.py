"""Driver for the property checks: environment set-up, collect-then-shrink generation,
sharding over processes, replay files, known findings, evidence and exit protocol.

A *check module* (checks/cNN.py) exposes

    PROPERTY = "CNN"
    LEVEL    = "exploration" | "fault_enumeration"
    RULE     = "<how cases are generated and what counts as non-trivial>"
    ASSUMPTIONS = [...]
    def subchecks(tier) -> list[Sub]
    KNOWN = {key: matcher(sub_name, case, clause, detail) -> bool}     (optional)

A `Sub` is one executable relation: a generator of JSON-serialisable *cases* (either a
Hypothesis strategy or an explicit finite enumeration) plus `fn(case, ctx)` which builds
the real inputs from the case, calls tangermeme and the oracle, and raises `Violation`.
Because a case is plain JSON it *is* the replay file, its SHA-1 is the fingerprint used
to count distinct cases, and samples can be written to the evidence verbatim.
"""

import hashlib
import json
import os
import sys
import time
import traceback

VERIF = os.path.dirname(os.path.dirname(os.path.abspath(__file__)))
REPO = os.environ.get("VERIF_REPO", "/repo")


# ----------------------------------------------------------------------------------
# environment
# ----------------------------------------------------------------------------------

def _source_hash():
    h = hashlib.sha256()
    root = os.path.join(REPO, "tangermeme")
    for d, dirs, files in sorted(os.walk(root)):
        dirs.sort()
        if "__pycache__" in d:
            continue
        for f in sorted(files):
            if f.endswith(".py"):
                p = os.path.join(d, f)
                h.update(os.path.relpath(p, root).encode())
                with open(p, "rb") as fh:
                    h.update(fh.read())
    return h.hexdigest()[:16]


def setup_env(tier=None):
    """Must run before torch / numba / tangermeme are imported."""
    if tier is None:
        tier = os.environ.get("VERIF_TIER_EFFECTIVE", "quick")
    os.environ["VERIF_TIER_EFFECTIVE"] = tier
    # several worker processes each own a numba thread pool: keep the pools small in the quick tier
    os.environ.setdefault("NUMBA_NUM_THREADS", "4" if tier == "quick" else "16")
    if os.environ.get("PYTHONHASHSEED") != "0":
        os.environ["PYTHONHASHSEED"] = "0"
        os.execv(sys.executable, [sys.executable] + sys.argv)
    os.environ.setdefault("TANGERMEME_VERIF", "1")
    sys.dont_write_bytecode = True
    cache_root = os.path.join(VERIF, ".cache", "numba")
    os.makedirs(cache_root, exist_ok=True)
    key = _source_hash()
    cdir = os.path.join(cache_root, key)
    os.makedirs(cdir, exist_ok=True)
    os.utime(cdir, None)
    os.environ["NUMBA_CACHE_DIR"] = cdir
    # keep at most 4 old cache directories
    try:
        olds = sorted((os.path.getmtime(os.path.join(cache_root, d)), d)
                      for d in os.listdir(cache_root) if d != key)
        import shutil
        for _, d in olds[:-3] if len(olds) > 3 else []:
            shutil.rmtree(os.path.join(cache_root, d), ignore_errors=True)
    except OSError:
        pass
    os.environ.setdefault("OMP_NUM_THREADS", "1")
    os.environ.setdefault("MKL_NUM_THREADS", "1")
    if REPO not in sys.path[:1]:
        sys.path.insert(0, REPO)
    if VERIF not in sys.path:
        sys.path.insert(1, VERIF)


def assert_repo_import():
    import tangermeme
    f = os.path.realpath(tangermeme.__file__)
    if not f.startswith(os.path.realpath(REPO) + os.sep):
        raise HarnessError("tangermeme imported from %s, not from %s" % (f, REPO))
    try:
        import warnings
        import torch
        torch.set_num_threads(1)
        warnings.filterwarnings("ignore", message="Using padding='same'")
    except Exception:
        pass


# ----------------------------------------------------------------------------------
# outcomes
# ----------------------------------------------------------------------------------

class HarnessError(Exception):
    pass


class Violation(Exception):
    """The property is broken on this case.  `clause` names which part of the statement."""

    def __init__(self, clause, detail=""):
        super().__init__("%s: %s" % (clause, detail))
        self.clause = clause
        self.detail = str(detail)[:2000]


class Rejected(Exception):
    """The code under test refused an input the property does not cover (counted)."""


class Skip(Exception):
    """The case falls in a stated ambiguity band of the oracle (counted)."""


class SutRaised(Exception):
    """tangermeme raised.  Checks catch this where a rejection is permitted; left
    uncaught it is a violation ('unexpected-raise')."""

    def __init__(self, exc):
        self.exc = exc
        where = "?"
        tb = exc.__traceback__
        while tb is not None:
            fn = tb.tb_frame.f_code.co_filename
            if os.sep + "tangermeme" + os.sep in fn:
                where = "%s:%s" % (os.path.basename(fn), tb.tb_frame.f_code.co_name)
            tb = tb.tb_next
        self.where = where
        super().__init__("%s at %s: %s" % (type(exc).__name__, where, str(exc)[:300]))


def sut(fn, *a, **k):
    """Call code under test; any exception becomes SutRaised."""
    try:
        return fn(*a, **k)
    except (Violation, Rejected, Skip, HarnessError):
        raise
    except Exception as e:  # noqa: BLE001 - deliberate: classify, never swallow
        raise SutRaised(e) from e


def must_raise(fn, *a, **k):
    """True if the call raises (any exception type), False if it returns."""
    try:
        fn(*a, **k)
    except Exception:  # noqa: BLE001
        return True
    return False


def require(cond, clause, detail=""):
    if not cond:
        raise Violation(clause, detail() if callable(detail) else detail)


# ----------------------------------------------------------------------------------
# deep snapshots: "the caller's arguments are not modified" / "the same call gives the same answer"
# ----------------------------------------------------------------------------------

def deep_snapshot(obj):
    import copy
    try:
        import torch
        if isinstance(obj, torch.Tensor):
            return obj.detach().clone()
    except ImportError:
        pass
    try:
        import numpy
        if isinstance(obj, numpy.ndarray):
            return obj.copy()
    except ImportError:
        pass
    try:
        import pandas
        if isinstance(obj, (pandas.DataFrame, pandas.Series)):
            return obj.copy(deep=True)
    except ImportError:
        pass
    if isinstance(obj, dict):
        return {k: deep_snapshot(v) for k, v in obj.items()}
    if isinstance(obj, (list, tuple)):
        return type(obj)(deep_snapshot(v) for v in obj)
    return copy.deepcopy(obj)


def deep_equal(a, b):
    import numpy
    try:
        import torch
        if isinstance(a, torch.Tensor) or isinstance(b, torch.Tensor):
            return isinstance(a, torch.Tensor) and isinstance(b, torch.Tensor) and a.shape == b.shape and a.dtype == b.dtype and \
                bool(((a == b) | (a.isnan() & b.isnan() if a.is_floating_point() else torch.zeros_like(a, dtype=torch.bool))).all())
    except ImportError:
        pass
    try:
        import pandas
        if isinstance(a, (pandas.DataFrame, pandas.Series)):
            return type(a) is type(b) and a.equals(b)
    except ImportError:
        pass
    if isinstance(a, numpy.ndarray) or isinstance(b, numpy.ndarray):
        return isinstance(a, numpy.ndarray) and isinstance(b, numpy.ndarray) and a.shape == b.shape and a.dtype == b.dtype and \
            bool(numpy.array_equal(a, b, equal_nan=a.dtype.kind == "f"))
    if isinstance(a, dict):
        return isinstance(b, dict) and list(a.keys()) == list(b.keys()) and all(deep_equal(a[k], b[k]) for k in a)
    if isinstance(a, (list, tuple)):
        return type(a) is type(b) and len(a) == len(b) and all(deep_equal(x, y) for x, y in zip(a, b))
    return a == b


class Unchanged:
    """with Unchanged(clause, name=obj, ...): ...   raises Violation(clause) if any of the objects differs afterwards"""

    def __init__(self, clause, **objs):
        self.clause, self.objs = clause, objs

    def __enter__(self):
        self.snaps = {k: deep_snapshot(v) for k, v in self.objs.items()}
        return self

    def __exit__(self, et, ev, tb):
        if et is None:
            for k, v in self.objs.items():
                if not deep_equal(v, self.snaps[k]):
                    raise Violation(self.clause, "the caller's `%s` was modified by the call" % k)
        return False


def same_twice(fn, clause, *a, **k):
    """Calls fn twice with the same arguments; the results must be identical (deterministic API)."""
    r1 = sut(fn, *a, **k)
    r2 = sut(fn, *a, **k)
    if not deep_equal(r1, r2):
        raise Violation(clause, "two identical calls returned different results")
    return r1


class Ctx:
    """Per-case recorder handed to the check function."""

    __slots__ = ("nontrivial", "labels", "extra")

    def __init__(self):
        self.nontrivial = False
        self.labels = []
        self.extra = {}

    def label(self, *names):
        self.labels.extend(names)

    def nt(self, flag=True):
        if flag:
            self.nontrivial = True


class Sub:
    def __init__(self, name, fn, strategy=None, enum=None, n_quick=200, n_thorough=2000,
                 shards_quick=1, shards_thorough=16, budget_quick=120.0,
                 budget_thorough=1500.0, exhaustive=False, desc=""):
        self.name = name
        self.fn = fn
        self.strategy = strategy      # callable () -> hypothesis strategy (lazy import)
        self.enum = enum              # callable (tier) -> list/iterable of cases
        self.n_quick, self.n_thorough = n_quick, n_thorough
        self.shards_quick, self.shards_thorough = shards_quick, shards_thorough
        self.budget_quick, self.budget_thorough = budget_quick, budget_thorough
        self.exhaustive = exhaustive
        self.desc = desc


def fingerprint(case):
    return hashlib.sha1(json.dumps(case, sort_keys=True, default=str).encode()).hexdigest()[:16]


def _size(case):
    s = json.dumps(case, sort_keys=True, default=str)
    return (len(s), s)


# ----------------------------------------------------------------------------------
# running one unit of work (in a worker process or in-process)
# ----------------------------------------------------------------------------------

def _new_stats():
    return {"evaluations": 0, "nt": set(), "classes": {}, "samples": [], "rejected": 0,
            "skipped": 0, "failures": {}, "truncated": False, "enum_total": 0,
            "enum_done": 0, "inner": 0}


_INFLIGHT = {"path": None}


def run_case(sub, case, stats=None):
    """Returns None if the property held, else (clause, detail)."""
    ctx = Ctx()
    out = None
    if stats is not None and _INFLIGHT["path"]:
        # a crash (segfault / abort) of the code under test kills the worker: the case being executed is on disk
        try:
            with open(_INFLIGHT["path"], "w") as fh:
                json.dump({"sub": sub.name, "case": case}, fh, default=str)
        except OSError:
            pass
    try:
        sub.fn(case, ctx)
    except Violation as v:
        out = (v.clause, v.detail)
    except SutRaised as s:
        out = ("unexpected-raise:%s@%s" % (type(s.exc).__name__, s.where), str(s))
    except Rejected:
        if stats is not None:
            stats["rejected"] += 1
        ctx.labels.append("rejected_by_sut")
    except Skip:
        if stats is not None:
            stats["skipped"] += 1
        ctx.labels.append("ambiguous_skipped")
    if stats is not None:
        stats["evaluations"] += 1
        stats["inner"] += int(ctx.extra.get("inner", 0))
        for l in ctx.labels:
            stats["classes"][l] = stats["classes"].get(l, 0) + 1
        if ctx.nontrivial and out is None:
            fp = fingerprint(case)
            if fp not in stats["nt"]:
                stats["nt"].add(fp)
                if len(stats["samples"]) < 4 or (len(stats["nt"]) in (50, 500) and len(stats["samples"]) < 6):
                    stats["samples"].append(case)
    return out


def _record_failure(stats, sub, case, res):
    clause, detail = res
    cur = stats["failures"].get(clause)
    if cur is None or _size(case) < _size(cur["case"]):
        n = 1 if cur is None else cur["count"] + 1
        stats["failures"][clause] = {"case": case, "detail": detail, "count": n}
    else:
        cur["count"] += 1


def run_unit(module_name, sub_name, tier, seed, shard, n_shards):
    """Executed in a worker.  Returns a picklable stats dict."""
    import importlib
    setup_env(tier)
    assert_repo_import()
    mod = importlib.import_module(module_name)
    sub = {s.name: s for s in mod.subchecks(tier)}[sub_name]
    _INFLIGHT["path"] = inflight_path(mod.PROPERTY, sub_name, shard)
    os.makedirs(os.path.dirname(_INFLIGHT["path"]), exist_ok=True)
    stats = _new_stats()
    t0 = time.time()
    budget = sub.budget_quick if tier == "quick" else sub.budget_thorough
    if sub.enum is not None:
        cases = sub.enum(tier)
        if not isinstance(cases, list):
            cases = list(cases)
        stats["enum_total"] = len(cases)
        for i, case in enumerate(cases):
            if i % n_shards != shard:
                continue
            if time.time() - t0 > budget:
                stats["truncated"] = True
                break
            res = run_case(sub, case, stats)
            stats["enum_done"] += 1
            if res is not None:
                _record_failure(stats, sub, case, res)
    if sub.strategy is not None:
        _run_hypothesis(sub, tier, seed, shard, n_shards, stats, t0, budget)
    stats["nt"] = sorted(stats["nt"])
    stats["wall"] = time.time() - t0
    _stop_loky()
    try:
        os.remove(_INFLIGHT["path"])
    except OSError:
        pass
    _INFLIGHT["path"] = None
    return stats


def _stop_loky():
    """joblib's loky pool (started by tangermeme functions called with n_jobs > 1) keeps idle workers for 300 s and the process that
    owns it waits for them when it exits: without this a finished run lingered for five minutes before returning."""
    try:
        rex = sys.modules.get("joblib.externals.loky.reusable_executor")
        if rex is not None and getattr(rex, "_executor", None) is not None:
            rex._executor.shutdown(wait=True, kill_workers=True)
            rex._executor = None
    except Exception:  # noqa: BLE001 - purely a courtesy to the caller's wall clock
        pass


def inflight_path(prop, sub_name, shard):
    return os.path.join(VERIF, ".cache", "inflight", "%s-%s-%d-%d.json" % (prop, sub_name, shard, os.getppid() if False else 0))


def _unit_seed(seed, sub_name, shard):
    h = hashlib.sha256(("%d/%s/%d" % (seed, sub_name, shard)).encode()).digest()
    return int.from_bytes(h[:6], "big")


def _run_hypothesis(sub, tier, seed, shard, n_shards, stats, t0, budget):
    import hypothesis
    from hypothesis import HealthCheck, Phase, given, settings

    n_total = sub.n_quick if tier == "quick" else sub.n_thorough
    n = max(1, n_total // n_shards)
    useed = _unit_seed(seed, sub.name, shard)
    strat = sub.strategy()
    hc = [HealthCheck.too_slow, HealthCheck.data_too_large, HealthCheck.large_base_example,
          HealthCheck.function_scoped_fixture, HealthCheck.differing_executors]
    common = dict(database=None, deadline=None, derandomize=False, report_multiple_bugs=False,
                  suppress_health_check=hc, print_blob=False)

    @hypothesis.seed(useed)
    @settings(max_examples=n, phases=[Phase.generate], **common)
    @given(strat)
    def gen(case):
        if time.time() - t0 > budget:
            stats["truncated"] = True
            return
        res = run_case(sub, case, stats)
        if res is not None:
            _record_failure(stats, sub, case, res)

    gen()

    # shrink every bucket separately
    shrink_cap = 25.0 if tier == "quick" else 120.0
    for clause in sorted(stats["failures"])[:6]:
        best = stats["failures"][clause]
        ts = time.time()

        # same seed => the same example sequence, so the recorded failure is met again
        @hypothesis.seed(useed)
        @settings(max_examples=n, phases=[Phase.generate, Phase.shrink], **common)
        @given(strat)
        def shr(case):
            if time.time() - ts > shrink_cap:
                return
            res = run_case(sub, case, None)
            if res is not None and res[0] == clause:
                if _size(case) < _size(best["case"]):
                    best["case"], best["detail"] = case, res[1]
                raise AssertionError(clause)

        try:
            shr()
        except BaseException as e:  # noqa: BLE001 - outcome is read from `best`
            if isinstance(e, (KeyboardInterrupt, SystemExit)):
                raise


# ----------------------------------------------------------------------------------
# known findings
# ----------------------------------------------------------------------------------

def load_known(prop):
    """Returns {key: description} for `known:` lines of this property."""
    out = {}
    p = os.path.join(VERIF, "KNOWN_FINDINGS.txt")
    if not os.path.exists(p):
        return out
    for line in open(p):
        line = line.strip()
        if not line.startswith("known:"):
            continue
        toks = line[len("known:"):].split()
        kv = dict(t.split("=", 1) for t in toks if "=" in t and t.split("=", 1)[0] in ("property", "key"))
        if kv.get("property") == prop and "key" in kv:
            out[kv["key"]] = line
    return out


# ----------------------------------------------------------------------------------
# main
# ----------------------------------------------------------------------------------

def _write_json(path, obj):
    os.makedirs(os.path.dirname(path), exist_ok=True)
    tmp = path + ".tmp"
    with open(tmp, "w") as fh:
        json.dump(obj, fh, indent=1, sort_keys=True, default=str)
        fh.write("\n")
    os.replace(tmp, path)


def _clip(case, limit=3000):
    s = json.dumps(case, sort_keys=True, default=str)
    if len(s) <= limit:
        return case
    return {"_truncated_json": s[:limit] + "...", "_full_length": len(s)}


def main(module_name, argv=None):
    import argparse
    import importlib

    ap = argparse.ArgumentParser()
    ap.add_argument("--tier", default=os.environ.get("VERIF_TIER", "quick"), choices=["quick", "thorough"])
    ap.add_argument("--replay")
    ap.add_argument("--only", help="comma-separated sub-check names")
    ap.add_argument("--workers", type=int, default=0)
    ap.add_argument("--scale", type=float, default=1.0, help="multiply case counts (development)")
    args = ap.parse_args(argv)
    try:
        seed = int(os.environ.get("VERIF_SEED", "0") or 0)
    except ValueError:
        seed = 0
    t0 = time.time()
    prop = "?"
    try:
        assert_repo_import()
        mod = importlib.import_module(module_name)
        prop = mod.PROPERTY
        if args.replay:
            return _replay(mod, args.replay)
        return _run(mod, module_name, args, seed, t0)
    except HarnessError as e:
        print("HARNESS-ERROR property=%s %s" % (prop, e))
        return 2
    except Exception:  # noqa: BLE001
        traceback.print_exc()
        print("HARNESS-ERROR property=%s unexpected exception in the harness (see traceback)" % prop)
        return 2
    finally:
        _stop_loky()
        sys.stdout.flush()


def _replay(mod, path):
    rec = json.load(open(path))
    subs = {s.name: s for s in mod.subchecks("quick")}
    subs.update({s.name: s for s in mod.subchecks("thorough")})
    sub = subs.get(rec["sub"])
    if sub is None:
        raise HarnessError("replay names unknown sub-check %r" % rec["sub"])
    res = run_case(sub, rec["case"], None)
    if res is None:
        print("replay %s: property holds on this case" % path)
        return 0
    print("replay %s: clause=%s detail=%s" % (path, res[0], res[1][:500]))
    print("VIOLATION property=%s replay=%s" % (mod.PROPERTY, path))
    return 1


def _run(mod, module_name, args, seed, t0):
    import multiprocessing as mp

    prop, tier = mod.PROPERTY, args.tier
    subs = mod.subchecks(tier)
    if args.only:
        keep = set(args.only.split(","))
        subs = [s for s in subs if s.name in keep]
    if args.scale != 1.0:
        for s in subs:
            s.n_quick = max(1, int(s.n_quick * args.scale))
            s.n_thorough = max(1, int(s.n_thorough * args.scale))
    known_active = load_known(prop)
    matchers = getattr(mod, "KNOWN", {})
    for k in known_active:
        if k not in matchers:
            raise HarnessError("KNOWN_FINDINGS.txt lists key %s for %s but the check has no matcher" % (k, prop))

    violations = []          # (sub, clause, case, detail, origin)
    known_hits = {}
    per_sub = {}

    def classify(sub_name, clause, case, detail, origin, count=1):
        for k in known_active:
            if matchers[k](sub_name, case, clause, detail):
                known_hits[k] = known_hits.get(k, 0) + count
                return
        violations.append((sub_name, clause, case, detail, origin, count))

    # 1. regression corpus
    corpus_dir = os.path.join(VERIF, "corpus", prop)
    replayed = 0
    sub_by_name = {s.name: s for s in mod.subchecks("thorough")}
    sub_by_name.update({s.name: s for s in subs})
    if os.path.isdir(corpus_dir) and not args.only:
        for f in sorted(os.listdir(corpus_dir)):
            if not f.endswith(".json"):
                continue
            rec = json.load(open(os.path.join(corpus_dir, f)))
            sub = sub_by_name.get(rec["sub"])
            if sub is None:
                raise HarnessError("corpus file %s names unknown sub-check %s" % (f, rec["sub"]))
            replayed += 1
            res = run_case(sub, rec["case"], None)
            if res is not None:
                classify(sub.name, res[0], rec["case"], res[1], "corpus/" + f)

    # 2. generated search, sharded
    units = []
    for s in subs:
        k = s.shards_quick if tier == "quick" else s.shards_thorough
        for sh in range(k):
            units.append((module_name, s.name, tier, seed, sh, k))
    workers = args.workers or (min(8, len(units)) if tier == "quick" else min(16, len(units)))
    results = []
    if workers <= 1 or len(units) == 1:
        for u in units:
            results.append((u, run_unit(*u)))
    else:
        from concurrent.futures import ProcessPoolExecutor
        from concurrent.futures.process import BrokenProcessPool
        ctx = mp.get_context("spawn")
        crashed, timed_out = [], []
        ex = ProcessPoolExecutor(max_workers=workers, mp_context=ctx)
        try:
            futs = [(u, ex.submit(run_unit, *u)) for u in units]
            for u, f in futs:
                sub_u = [s for s in subs if s.name == u[1]][0]
                limit = (sub_u.budget_quick if tier == "quick" else sub_u.budget_thorough) * 2 + 600
                try:
                    results.append((u, f.result(timeout=limit)))
                except BrokenProcessPool:
                    crashed.append(u)
                except TimeoutError:
                    timed_out.append(u)
                    break
        finally:
            procs = list((getattr(ex, "_processes", None) or {}).values())
            ex.shutdown(wait=False, cancel_futures=True)
            for p_ in procs if (crashed or timed_out) else []:
                try:
                    p_.kill()
                except Exception:  # noqa: BLE001
                    pass
        if crashed:
            # a worker died (segfault / abort inside the code under test) and took the pool with it.  Every unit that did not
            # finish is re-run alone in a process of its own: it either completes (its results are merged) or dies again, in
            # which case the case it was executing is on disk (in-flight file) and is reported as the crashing input.
            for u in crashed:
                ip = inflight_path(prop, u[1], u[4])
                if os.path.exists(ip):
                    os.remove(ip)
                ex1 = ProcessPoolExecutor(max_workers=1, mp_context=ctx)
                try:
                    results.append((u, ex1.submit(run_unit, *u).result(timeout=3600)))
                except BrokenProcessPool:
                    if os.path.exists(ip):
                        rec = json.load(open(ip))
                        classify(rec["sub"], "process-crash", rec["case"],
                                 "the worker process executing this case died (segfault/abort in the code under test)", "generated")
                        os.remove(ip)
                    else:
                        raise HarnessError("unit %s/%d kills its worker process before executing any case" % (u[1], u[4]))
                except TimeoutError:
                    timed_out.append(u)
                finally:
                    ex1.shutdown(wait=False, cancel_futures=True)
        if timed_out:
            raise HarnessError("unit %s/%d exceeded its hard time limit (inconclusive)" % (timed_out[0][1], timed_out[0][4]))

    total_eval, all_nt, classes, samples = 0, set(), {}, []
    rejected = skipped = inner = 0
    truncated = False
    exhaustive_scopes = []
    for u, st in results:
        name = u[1]
        ps = per_sub.setdefault(name, {"evaluations": 0, "nontrivial": set(), "wall_s": 0.0,
                                       "enum_total": 0, "enum_done": 0, "truncated": False})
        ps["evaluations"] += st["evaluations"]
        ps["nontrivial"].update(st["nt"])
        ps["wall_s"] = max(ps["wall_s"], st["wall"])
        ps["enum_total"] = max(ps["enum_total"], st["enum_total"])
        ps["enum_done"] += st["enum_done"]
        ps["truncated"] = ps["truncated"] or st["truncated"]
        total_eval += st["evaluations"]
        all_nt.update(name + ":" + f for f in st["nt"])
        for k, v in st["classes"].items():
            classes[name + "." + k] = classes.get(name + "." + k, 0) + v
        if len([1 for n_, _ in samples if n_ == name]) < 2:
            for c in st["samples"][:2]:
                samples.append((name, c))
        rejected += st["rejected"]
        skipped += st["skipped"]
        inner += st.get("inner", 0)
        truncated = truncated or st["truncated"]
        for clause, rec in st["failures"].items():
            classify(name, clause, rec["case"], rec["detail"], "generated", rec["count"])

    sub_objs = {s.name: s for s in subs}
    for name, ps in per_sub.items():
        if sub_objs[name].enum is not None and sub_objs[name].exhaustive and not ps["truncated"] \
                and ps["enum_done"] == ps["enum_total"]:
            exhaustive_scopes.append({"sub": name, "cases": ps["enum_total"], "desc": sub_objs[name].desc})
        ps["nontrivial"] = len(ps["nontrivial"])

    # 3. report
    # keep one (the smallest) violation per (sub, clause)
    best = {}
    for v in violations:
        key = (v[0], v[1])
        if key not in best or _size(v[2]) < _size(best[key][2]):
            best[key] = v
    rc = 0
    replay_dir = os.path.join(VERIF, "replays", prop)
    for (sub_name, clause), v in sorted(best.items()):
        os.makedirs(replay_dir, exist_ok=True)
        fp = fingerprint({"s": sub_name, "c": v[2]})
        path = os.path.join(replay_dir, "%s-%s.json" % (sub_name, fp))
        _write_json(path, {"property": prop, "sub": sub_name, "clause": clause, "detail": v[3],
                           "case": v[2], "origin": v[4], "seed": seed, "tier": tier})
        print("violation: sub=%s clause=%s occurrences=%d detail=%s" % (sub_name, clause, v[5], v[3][:400]))
        print("VIOLATION property=%s replay=%s" % (prop, os.path.relpath(path, VERIF)))
        rc = 1
    for k, line in sorted(known_active.items()):
        print("KNOWN-FINDING: property=%s key=%s reproduced_this_run=%d :: %s"
              % (prop, k, known_hits.get(k, 0), line))

    wall = time.time() - t0
    ev = {
        "property_id": prop, "tier": tier, "seed": seed, "level": getattr(mod, "LEVEL", "exploration"),
        "wall_s": round(wall, 2), "violations": len(best),
        "assumptions": list(getattr(mod, "ASSUMPTIONS", [])),
        "coverage": {
            "evaluations": total_eval,
            "distinct_nontrivial": len(all_nt),
            "rule": mod.RULE,
            "samples": [{"sub": n, "case": _clip(c)} for n, c in samples[:8]],
            "classes": dict(sorted(classes.items())),
            "per_subcheck": per_sub,
            "rejected_by_sut": rejected,
            "inner_oracle_evaluations": inner,
            "ambiguous_skipped": skipped,
            "excluded_known": sum(known_hits.values()),
            "exhaustive_subscope": exhaustive_scopes,
            "exhaustive": False,
            "regression_replayed": replayed,
            "truncated": truncated,
            "workers": workers,
            "source_hash": _source_hash(),
        },
    }
    if not args.only:
        # evidence/ only ever describes runs against /repo itself; runs against a scratch copy (VERIF_REPO, used for the seeded
        # changes) leave their record under .cache/
        scratch = os.path.realpath(REPO) != os.path.realpath("/repo")
        ev_dir = os.path.join(VERIF, ".cache", "evidence_scratch") if scratch else os.path.join(VERIF, "evidence")
        _write_json(os.path.join(ev_dir, prop + ".json"), ev)
    print("%s tier=%s seed=%d evaluations=%d distinct_nontrivial=%d rejected=%d skipped=%d "
          "violations=%d truncated=%s wall=%.1fs"
          % (prop, tier, seed, total_eval, len(all_nt), rejected, skipped, len(best), truncated, wall))
    for name, ps in per_sub.items():
        print("  sub %-28s eval=%-7d nontrivial=%-7d wall=%.1fs%s" % (
            name, ps["evaluations"], ps["nontrivial"], ps["wall_s"],
            " TRUNCATED" if ps["truncated"] else ""))
    if os.environ.get("VERIF_SHOW_CLASSES"):
        for k, v in sorted(classes.items()):
            print("    class %-50s %d" % (k, v))
    if rc == 0 and len(all_nt) < 2:
        print("HARNESS-ERROR property=%s fewer than two non-trivial cases were generated" % prop)
        return 2
    return rc

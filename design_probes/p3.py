import torch, numpy, math, itertools, time
from tangermeme.tools.fimo import _pwm_to_mapping, fimo, logaddexp2
numpy.random.seed(0)
def rand_pwm(w):
    p = numpy.random.dirichlet(numpy.ones(4), size=w).T
    return p
for w in (1,2,3,5):
    pwm = rand_pwm(w)
    lp = numpy.log2(pwm + 1e-4) - math.log2(0.25)
    s, t = _pwm_to_mapping(lp, 0.1)
    print("w",w,"smallest",s,"len",len(t),"nan count",numpy.isnan(t).sum(), "first", t[:3], "last", t[-4:])
    # brute force
    ilp = numpy.round(lp/0.1).astype(int)
    from collections import Counter
    c = Counter()
    for seq in itertools.product(range(4), repeat=w):
        c[sum(ilp[ch,i] for i,ch in enumerate(seq))] += 1
    tot = 4**w
    exact = numpy.array([sum(v for k,v in c.items() if k >= b + s)/tot for b in range(len(t))])
    with numpy.errstate(divide='ignore'):
        le = numpy.log2(exact)
    ok = numpy.isfinite(le)
    print("   max abs diff on finite:", numpy.nanmax(numpy.abs(t[ok]-le[ok])) if ok.any() else None, " impl at zero-prob bins:", t[~ok][:5])
print("logaddexp2(-inf,-inf)=", logaddexp2(-numpy.inf, -numpy.inf), " (-inf, 1)=", logaddexp2(-numpy.inf, 1.0))

#!/bin/bash
# usage: tools/run_all.sh <tier> <seed> [ids...]   - runs the checks sequentially, prints one summary line each
tier=${1:-quick}; seed=${2:-0}; shift 2
ids=${@:-C01 C02 C03 C04 C05 C06 C07 C08 C09 C10 C11 C12 C13 C14 C15 C16 C17 C18 C19 C20}
cd "$(dirname "$0")/.."
for id in $ids; do
  out=$(VERIF_SEED=$seed /venv/bin/python run_check.py $id --tier $tier 2>&1); rc=$?
  echo "$id seed=$seed exit=$rc :: $(echo "$out" | grep -E "^$id tier" | cut -c1-200)"
  echo "$out" | grep -E "^(VIOLATION|violation:|HARNESS|KNOWN)" | cut -c1-400
done

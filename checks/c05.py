"""C05 - DeepLIFT/SHAP multipliers equal an independent rescale-rule computation."""
import warnings

import torch
from hypothesis import strategies as st

from pbt.harness import Sub, Violation, Skip, Rejected, SutRaised, require, sut
from pbt import nets
from checks.c04 import inputs

from tangermeme.deep_lift_shap import deep_lift_shap

PROPERTY = "C05"
LEVEL = "exploration"
RULE = ("cases = (random sequential architecture of Conv1d / Linear / AvgPool1d / Flatten and the 16 element-wise activations - no "
        "max-pooling -, float64 weights from a generated seed, 1-4 one-hot examples, explicit reference tensors that are random, "
        "share a prefix with the example or are point mutants of it [so that exact-zero and non-zero deltas both occur], target, "
        "batch size) drawn by Hypothesis. Oracle = harness-side layer-by-layer rescale rule: forward example and reference "
        "separately through a pristine copy, then walk backwards multiplying by (out(x)-out(ref))/(in(x)-in(ref)) (ordinary "
        "derivative where |delta_in| < 1e-6) at activations and by the layer's own transpose at linear layers; compared with raw "
        "multipliers, hypothetical and processed attributions (rtol 1e-8, atol 1e-10). Cases with an activation input delta in "
        "(1e-7, 1e-5) are skipped. Affine models: closed form sum_c W_eff[c,p](x-ref)[c,p] and independence of every bias. "
        "Non-trivial: some activation sees both exact-zero and non-zero deltas and the multipliers differ from the plain gradient.")
ASSUMPTIONS = ["max-pooling is covered by C04's completeness law, not by this rule-level oracle", "float64 throughout"]


def _refs(case, L):
    return nets.one_hot(case["refs"]["idx"])


def multiplier_case(case, ctx):
    arch = case["arch"]
    model = nets.build(arch, case["seed"])
    ref_model = nets.pristine(model)
    X = nets.one_hot(case["X"])
    n, L = X.shape[0], X.shape[2]
    R = _refs(case, L)
    ns = R.shape[1]
    t = case["target"]
    # oracle first
    M = torch.zeros(n, ns, 4, L, dtype=torch.float64)
    band = zero = nonzero = 0
    for i in range(n):
        for j in range(ns):
            m, b, z, nz = nets.rescale_multipliers(ref_model, X[i:i + 1], R[i, j:j + 1], t)
            M[i, j] = m[0]
            band += b
            zero += z
            nonzero += nz
    if band:
        raise Skip()
    kw = dict(target=t, batch_size=case["batch_size"], device="cpu", references=R)
    if case.get("train_mode"):
        model.train()
        ctx.label("handed_over_in_train_mode")
    if case.get("override_first"):
        plain = lambda module, grad_input, grad_output: grad_input
        with warnings.catch_warnings():
            warnings.simplefilter("ignore")
            try:
                deep_lift_shap(model, X, additional_nonlinear_ops={getattr(torch.nn, a): plain for a in nets.ACTS}, **kw)
            except Exception:  # noqa: BLE001
                pass
        ctx.label("after_override_call")
    with warnings.catch_warnings():
        warnings.simplefilter("ignore")
        raw = sut(deep_lift_shap, model, X, raw_outputs=True, **kw)
        require(raw.dtype == torch.float64, "result-dtype", lambda: "float64 model and input gave %s" % raw.dtype)
        hyp = sut(deep_lift_shap, model, X, hypothetical=True, **kw)
        att = sut(deep_lift_shap, model, X, **kw)
    desc = lambda: "arch=%s target=%d ns=%d" % ([(l["t"], l.get("name") or l.get("k")) for l in arch["layers"]], t, ns)

    def close(a, b, clause):
        require(tuple(a.shape) == tuple(b.shape), clause + "-shape", lambda: "%s vs %s" % (tuple(a.shape), tuple(b.shape)))
        if not torch.allclose(a.double(), b.double(), rtol=1e-8, atol=1e-10):
            d = (a - b).abs()
            k = int(d.argmax())
            raise Violation(clause, "%s: max |diff| %.3g (got %r, oracle %r)" % (desc(), d.max().item(), a.flatten()[k].item(), b.flatten()[k].item()))

    close(raw, M, "raw-multipliers-differ-from-rescale-rule")
    # hypothetical: entry (k, p) = mean_j sum_c (e_k - ref_j)[c, p] * m_j[c, p]
    H = torch.zeros(n, 4, L, dtype=torch.float64)
    for k in range(4):
        e = torch.zeros(4, L, dtype=torch.float64)
        e[k] = 1
        H[:, k] = ((e[None, None] - R) * M).sum(dim=2).mean(dim=1)
    close(hyp, H, "hypothetical-attributions")
    close(att, H * X, "processed-attributions")
    # non-trivial
    Xg = X.clone().requires_grad_(True)
    with torch.enable_grad():
        g = torch.autograd.grad(ref_model(Xg)[:, t].sum(), Xg)[0]
    differs = (M - g[:, None]).abs().max().item() > 1e-6
    has_act = any(l["t"] == "act" for l in arch["layers"])
    ctx.nt(bool(differs and zero > 0 and nonzero > 0))
    if zero and nonzero:
        ctx.label("both_regimes")
    if not has_act:
        ctx.label("affine_model")
    for l in arch["layers"]:
        if l["t"] == "act":
            ctx.label("act_" + l["name"])


def affine_case(case, ctx):
    """No activation at all: attribution of the observed character = mean_j sum_c W_eff[c, p] (x - ref_j)[c, p], whatever the biases."""
    arch = case["arch"]
    model = nets.build(arch, case["seed"])
    X = nets.one_hot(case["X"])
    n, L = X.shape[0], X.shape[2]
    R = _refs(case, L)
    t = case["target"]
    # effective weights by probing the affine map with a pristine copy: f(x) = b_eff + sum W_eff * x
    ref_model = nets.pristine(model)
    Xg = torch.zeros(1, 4, L, dtype=torch.float64, requires_grad=True)
    with torch.enable_grad():
        W = torch.autograd.grad(ref_model(Xg)[:, t].sum(), Xg)[0][0]
    want = ((X[:, None] - R) * W[None, None]).sum(dim=2).mean(dim=1)[:, None] * X       # (n, 4, L)
    kw = dict(target=t, batch_size=case["batch_size"], device="cpu", references=R)
    att = sut(deep_lift_shap, model, X, **kw)
    require(att.dtype == torch.float64, "result-dtype", lambda: "float64 model and input gave %s" % att.dtype)
    require(tuple(att.shape) == tuple(want.shape) and torch.allclose(att.double(), want, rtol=1e-9, atol=1e-11), "affine-attribution-closed-form",
            lambda: "max |diff| %.3g" % (att - want).abs().max().item())
    # re-draw every bias: attributions must not move
    g = torch.Generator().manual_seed(case["seed"] + 17)
    with torch.no_grad():
        for mod in model.modules():
            if getattr(mod, "bias", None) is not None:
                mod.bias.copy_(torch.randn(mod.bias.shape, generator=g, dtype=torch.float64) * 5)
    att2 = sut(deep_lift_shap, model, X, **kw)
    require(torch.allclose(att2.double(), att.double(), rtol=1e-9, atol=1e-11), "affine-attribution-depends-on-bias",
            lambda: "max |diff| %.3g" % (att2 - att).abs().max().item())
    ctx.nt((want.abs() > 1e-12).any().item())


@st.composite
def strategy(draw, affine=False):
    L = draw(st.integers(8, 30))
    arch = draw(nets.arch_strategy(L, allow_maxpool=False))
    if affine:
        arch = dict(arch)
        layers = [l for l in arch["layers"] if l["t"] != "act"]
        arch["layers"] = layers
    X, refs, n, ns = draw(inputs(L, modes=("tensor",)))
    return {"arch": arch, "seed": draw(st.integers(0, 10 ** 6)), "X": X, "refs": refs, "target": draw(st.integers(0, arch["T"] - 1)),
            "batch_size": draw(st.integers(1, n * ns + 1)),
            "train_mode": draw(st.integers(0, 2)) == 0, "override_first": draw(st.integers(0, 5)) == 0}


def subchecks(tier):
    return [Sub("multipliers", multiplier_case, strategy=strategy, n_quick=700, n_thorough=30000, shards_quick=4),
            Sub("affine", affine_case, strategy=lambda: strategy(affine=True), n_quick=300, n_thorough=10000, shards_quick=2)]

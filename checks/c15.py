"""C15 - sequence representations convert losslessly and invert one another."""
import itertools

import torch
from hypothesis import strategies as st

from pbt.harness import Sub, Violation, SutRaised, require, sut, must_raise
from pbt import gen

from tangermeme.utils import one_hot_encode, characters, reverse_complement, chunk, unchunk

PROPERTY = "C15"
LEVEL = "exploration"
RULE = ("cases = (alphabet, ignore set, string, dtype) / (complement map, string) / (chunk size, overlap, "
        "sequence lengths) drawn by Hypothesis, plus a complete enumeration of all strings up to a small "
        "length over small alphabets; oracle = the string itself (round trip), a direct reversed+mapped "
        "string model, and direct slicing X[:, :covered] for chunk/unchunk. Non-trivial: string has length "
        ">= 2 or contains an ignored/illegal character; chunk case has overlap > 0. Distinct = SHA-1 of the case JSON.")
ASSUMPTIONS = ["alphabets are distinct printable ASCII characters not containing 'N'",
               "chunk/unchunk domain: every sequence yields at least one complete chunk"]

PRINTABLE = [chr(c) for c in range(33, 127) if chr(c) != "N"]
DT = ["int8", "uint8", "int16", "int32", "int64", "float16", "float32", "float64", "bool"]


# ------------------------------------------------------------------ one-hot round trip
def ohe_case(case, ctx):
    alpha, ign, s, dtype = case["alphabet"], case["ignore"], case["s"], gen.DTYPES[case["dtype"]]
    legal = set(alpha) | set(ign)
    illegal = [c for c in s if c not in legal]
    if illegal:
        ctx.nt()
        ctx.label("illegal_char")
        try:
            one_hot_encode(s, alphabet=list(alpha), ignore=list(ign), dtype=dtype)
        except ValueError:
            return
        except Exception as e:  # any rejection is a rejection; statement only says "rejected"
            return
        raise Violation("illegal-char-accepted", "string %r alphabet %r ignore %r" % (s, alpha, ign))
    X = sut(one_hot_encode, s, alphabet=list(alpha), ignore=list(ign), dtype=dtype)
    require(isinstance(X, torch.Tensor) and tuple(X.shape) == (len(alpha), len(s)), "encode-shape",
            lambda: "shape %s for %d x %d" % (tuple(X.shape), len(alpha), len(s)))
    require(X.dtype == dtype, "encode-dtype", lambda: str(X.dtype))
    exp = gen.encode(s, alpha, dtype)
    require(torch.equal(X, exp), "encode-values", lambda: "s=%r" % s)
    if len(s) > 0:
        back = sut(characters, X, alphabet=list(alpha), allow_N=True)
        want = "".join("N" if c in ign else c for c in s)
        require(back == want, "roundtrip", lambda: "%r -> %r" % (s, back))
        if not any(c in ign for c in s):
            back2 = sut(characters, X, alphabet=list(alpha))
            require(back2 == s, "roundtrip-noN", lambda: "%r -> %r" % (s, back2))
        # decode of an independently built encoding, then re-encode
        again = sut(one_hot_encode, back, alphabet=list(alpha), ignore=["N"], dtype=dtype)
        require(torch.equal(again, X), "encode-decode-encode", lambda: "s=%r" % s)
    ctx.nt(len(s) >= 2 or any(c in ign for c in s))
    if any(c in ign for c in s):
        ctx.label("has_ignored")
    ctx.label("dtype_" + case["dtype"])


@st.composite
def ohe_strategy(draw):
    chars = draw(st.lists(st.sampled_from(PRINTABLE), min_size=1, max_size=11, unique=True))
    nA = draw(st.integers(1, min(8, len(chars))))
    alpha = "".join(chars[:nA])
    ign = "".join(chars[nA:nA + 3])
    pool = alpha + ign
    s = draw(st.text(alphabet=pool, min_size=0, max_size=draw(st.sampled_from([8, 40, 300]))))
    if draw(st.integers(0, 9)) == 0:
        others = [c for c in PRINTABLE + ["N"] if c not in pool and not (c == "N")]
        bad = draw(st.sampled_from(others))
        pos = draw(st.integers(0, len(s)))
        s = s[:pos] + bad + s[pos:]
    return {"alphabet": alpha, "ignore": ign, "s": s, "dtype": draw(st.sampled_from(DT))}


def ohe_enum(tier):
    maxlen = 5 if tier == "quick" else 7
    cases = []
    for alpha, ign in [("A", ""), ("AC", ""), ("ACG", ""), ("A", "x"), ("AC", "x"), ("ACG", "x"),
                       ("ACGT", "x") if tier != "quick" else ("CA", "N")]:
        pool = alpha + ign
        for L in range(0, maxlen + 1):
            for tup in itertools.product(pool, repeat=L):
                cases.append({"alphabet": alpha, "ignore": ign, "s": "".join(tup), "dtype": "int8"})
        # one illegal character at every position of every string up to length 3
        for L in range(0, 4):
            for tup in itertools.product(pool, repeat=L):
                for pos in range(L + 1):
                    s = "".join(tup)
                    cases.append({"alphabet": alpha, "ignore": ign, "s": s[:pos] + "?" + s[pos:], "dtype": "int8"})
    return cases


# ------------------------------------------------------------------ reverse complement
def rc_case(case, ctx):
    alpha, pairs, s = case["alphabet"], case["map"], case["s"]
    cmap = {a: b for a, b in pairs}          # insertion order = alphabet order
    want = "".join(("N" if c == "N" else cmap[c]) for c in reversed(s))
    got = sut(reverse_complement, s, complement_map=cmap)
    require(got == want, "rc-string-model", lambda: "%r -> %r want %r" % (s, got, want))
    require(sut(reverse_complement, got, complement_map=cmap) == s, "rc-string-involution", s)
    X = gen.encode(s, alpha, gen.DTYPES[case["dtype"]])
    Xc = X.clone()
    R = sut(reverse_complement, X, complement_map=cmap)
    require(torch.equal(X, Xc), "rc-input-modified", s)
    require(torch.equal(R, gen.encode(want, alpha, X.dtype)), "rc-tensor-vs-string",
            lambda: "s=%r map=%r" % (s, pairs))
    require(torch.equal(sut(reverse_complement, R, complement_map=cmap), X), "rc-tensor-involution", s)
    if "N" in s:
        ctx.label("has_N")
        require(must_raise(reverse_complement, s, complement_map=cmap, allow_N=False), "rc-N-not-rejected", s)
    ctx.nt(len(s) >= 2 and any(a != b for a, b in pairs))
    ctx.label("A%d" % len(alpha))


@st.composite
def rc_strategy(draw):
    n = draw(st.integers(1, 8))
    chars = draw(st.lists(st.sampled_from(PRINTABLE), min_size=n, max_size=n, unique=True))
    perm = draw(st.permutations(list(range(n))))
    partner = list(range(n))
    # random involution: pair up consecutive entries of a permutation, some left fixed
    i = 0
    while i + 1 < n:
        if draw(st.booleans()) or n == 4:
            a, b = perm[i], perm[i + 1]
            partner[a], partner[b] = b, a
            i += 2
        else:
            i += 1
    alpha = "".join(chars)
    pairs = [[chars[k], chars[partner[k]]] for k in range(n)]
    s = draw(st.text(alphabet=alpha + "N", min_size=0, max_size=draw(st.sampled_from([6, 60]))))
    return {"alphabet": alpha, "map": pairs, "s": s, "dtype": draw(st.sampled_from(["int8", "float32", "float64", "int64"]))}


# ------------------------------------------------------------------ chunk / unchunk
def chunk_case(case, ctx):
    size, ov, C = case["size"], case["overlap"], case["C"]
    stride = size - ov
    dtype = gen.DTYPES[case["dtype"]]
    Xs, covered = [], []
    base = 0
    for k, extra in case["seqs"]:
        L = (k - 1) * stride + size + extra
        x = (torch.arange(C * L).reshape(C, L) + base)
        base += C * L + 7
        Xs.append(x.type(dtype))
        covered.append((k - 1) * stride + size)
    lengths = [x.shape[-1] for x in Xs]
    clones = [x.clone() for x in Xs]
    ch = sut(chunk, list(Xs), size=size, overlap=ov)
    nchunks = sum(k for k, _ in case["seqs"])
    require(tuple(ch.shape) == (nchunks, C, size), "chunk-shape", lambda: "%s want %s" % (tuple(ch.shape), (nchunks, C, size)))
    # chunk content itself
    row = 0
    for x, (k, _) in zip(Xs, case["seqs"]):
        for j in range(k):
            require(torch.equal(ch[row], x[:, j * stride:j * stride + size]), "chunk-content",
                    lambda: "chunk %d" % row)
            row += 1
    import numpy
    form = case.get("lengths_form", "list")
    lens = lengths if form == "list" else (torch.tensor(lengths) if form == "tensor" else numpy.array(lengths, dtype=numpy.int64))
    ys = sut(unchunk, ch, lengths=lens, overlap=ov)
    same_lens = list(lens) == lengths if form == "list" else [int(v) for v in lens] == lengths
    require(same_lens, "unchunk-lengths-modified", lambda: "lengths %r became %r" % (lengths, [int(v) for v in lens]))
    ys_again = sut(unchunk, ch, lengths=lens, overlap=ov)          # the same lengths object is reusable
    require(len(ys_again) == len(ys) and all(torch.equal(a_, b_) for a_, b_ in zip(ys, ys_again)), "unchunk-second-call-differs", "")
    require(len(ys) == len(Xs), "unchunk-count", lambda: "%d outputs for %d sequences" % (len(ys), len(Xs)))
    for i, (y, x, cov) in enumerate(zip(ys, Xs, covered)):
        require(tuple(y.shape) == (C, cov) and torch.equal(y, x[:, :cov]), "unchunk-roundtrip",
                lambda: "seq %d (k=%d) size=%d overlap=%d: got shape %s first row %s want %s" % (
                    i, case["seqs"][i][0], size, ov, tuple(y.shape), y[0].tolist()[:12], x[0, :cov].tolist()[:12]))
        require(torch.equal(Xs[i], clones[i]), "chunk-input-modified", "")
    ks = [k for k, _ in case["seqs"]]
    ctx.nt(ov > 0)
    for k in ks:
        ctx.label("k=%s" % (k if k < 4 else "4+"))
    if ov > 0 and 1 in ks:
        ctx.label("single_chunk_with_overlap")


@st.composite
def chunk_strategy(draw):
    size = draw(st.integers(1, 40))
    ov = draw(st.integers(0, size - 1))
    nseq = draw(st.integers(1, 4))
    seqs = []
    for _ in range(nseq):
        k = draw(st.sampled_from([1, 1, 2, 2, 3, 4, 5, 9]))
        extra = draw(st.integers(0, size - ov - 1))
        seqs.append([k, extra])
    return {"size": size, "overlap": ov, "C": draw(st.integers(1, 3)), "seqs": seqs,
            "dtype": draw(st.sampled_from(["int64", "float32", "float64", "int32"])),
            "lengths_form": draw(st.sampled_from(["list", "tensor", "numpy"]))}


def chunk_enum(tier):
    cases = []
    top = 12 if tier == "quick" else 40
    for size in range(1, top + 1):
        for ov in range(0, size):
            for ks in ([1], [2], [3], [4], [1, 3, 2]):
                extra = (size - ov - 1)
                cases.append({"size": size, "overlap": ov, "C": 2, "seqs": [[k, extra if i % 2 == 0 else 0] for i, k in enumerate(ks)],
                              "dtype": "int64", "lengths_form": "list"})
    return cases


def subchecks(tier):
    return [
        Sub("ohe_roundtrip", ohe_case, strategy=ohe_strategy, n_quick=6000, n_thorough=400000,
            shards_quick=2, shards_thorough=16),
        Sub("ohe_exhaustive", ohe_case, enum=ohe_enum, exhaustive=True, shards_quick=2, shards_thorough=8,
            desc="every string up to length 5 (quick) / 7 (thorough) over alphabets of size 1-3(4) plus 0-1 ignored "
                 "character, and one illegal character at every position of every string up to length 3"),
        Sub("revcomp", rc_case, strategy=rc_strategy, n_quick=3000, n_thorough=200000, shards_quick=1),
        Sub("chunk_unchunk", chunk_case, strategy=chunk_strategy, n_quick=2500, n_thorough=100000, shards_quick=2),
        Sub("chunk_grid", chunk_case, enum=chunk_enum, exhaustive=True, shards_quick=1, shards_thorough=4,
            desc="every (size, overlap) pair with size <= 12 (quick) / 40 (thorough) x chunk counts {1,2,3,4,(1,3,2)}"),
    ]

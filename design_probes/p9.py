import numpy, types, itertools, torch, math, time
from tangermeme import ersatz
from collections import Counter
pf = ersatz._fast_shuffle.py_func
class FakeRandom:
    def __init__(self, choices): self.choices = list(choices); self.log=[]
    def seed(self, s): pass
    def permutation(self, n):
        self.log.append(n)
        if n <= 0: return numpy.arange(0)
        return numpy.array(self.choices.pop(0))
class FakeNumpy:
    def __init__(self, rnd): self.random = rnd
    def __getattr__(self, k): return getattr(numpy, k)
def run(seq, n_chars, perms):
    idxs = numpy.array(seq, dtype=numpy.int32)
    L = len(seq)
    next_idxs = numpy.zeros((n_chars, L), dtype=numpy.int32); cnt = numpy.zeros(n_chars, dtype=numpy.int32)
    for c in range(n_chars):
        w = numpy.where(idxs[:-1]==c)[0]; next_idxs[c,:len(w)] = w+1; cnt[c]=len(w)
    out = numpy.zeros((1, n_chars, L), dtype=numpy.float32); counters = numpy.zeros((1,n_chars), dtype=numpy.int32)
    rnd = FakeRandom(perms)
    g = dict(pf.__globals__); g['numpy'] = FakeNumpy(rnd)
    f = types.FunctionType(pf.__code__, g)
    f(1, n_chars, idxs, next_idxs, cnt, counters, out, 0)
    return out[0].argmax(0).tolist(), out[0].sum(0).tolist(), cnt
def dinucs(s): return Counter(zip(s[:-1], s[1:]))
t=time.time(); tot=0; bad=0
for L in range(2,8):
    for seq in itertools.product(range(3), repeat=L):
        cnt = [sum(1 for x in seq[:-1] if x==c) for c in range(3)]
        spaces = [list(itertools.permutations(range(max(c-1,0)))) for c in cnt]
        for combo in itertools.product(*spaces):
            perms = [list(p) for p,c in zip(combo,cnt) if c-1 > 0]
            out, colsum, _ = run(seq, 3, perms)
            tot+=1
            if dinucs(out)!=dinucs(seq) or any(c!=1 for c in colsum): bad+=1
print("outcomes", tot, "bad", bad, "time", time.time()-t)

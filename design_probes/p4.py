import torch, numpy, math, itertools, time, sys
from tangermeme.tools.fimo import fimo
from tangermeme.utils import one_hot_encode
pwm = torch.tensor([[0.97,0.01,0.01,0.01],[0.01,0.97,0.01,0.01],[0.01,0.01,0.97,0.01],[0.01,0.01,0.01,0.97],[0.97,0.01,0.01,0.01],[0.01,0.97,0.01,0.01]]).T.double()
motifs = {"m": pwm}
for seq in ["ACGTACTTTTTT", "TTTTTTACGTAC", "TTTACGTACTTT", "GTACGTTTTTTT", "TTTTTTGTACGT"]:
    X = one_hot_encode(seq).unsqueeze(0)
    h = fimo(motifs, X, threshold=0.001)
    print(seq, h[0][['start','end','strand','score','p-value']].values.tolist())
if len(sys.argv) > 1:
    X = one_hot_encode("ACGT").unsqueeze(0)
    print("short seq:")
    h = fimo(motifs, X, threshold=0.001)
    print(h[0])

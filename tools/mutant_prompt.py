#!/venv/bin/python
"""Prints the brief handed to an independent sub-agent that seeds a property-breaking change.
Only the property text and the scratch worktree path are given - nothing from /verif."""
import json, sys
pid = sys.argv[1]
n = int(sys.argv[2]) if len(sys.argv) > 2 else 3
WAVE2 = len(sys.argv) > 3 and sys.argv[3] == 'wave2'
WAVE3 = len(sys.argv) > 3 and sys.argv[3] in ('wave3', 'wave4')
WAVE4 = len(sys.argv) > 3 and sys.argv[3] == 'wave4'
wt_name = pid + ('b' if WAVE2 else ('d' if WAVE4 else ('c' if WAVE3 else '')))
for l in open('/verif/properties.jsonl'):
    p = json.loads(l)
    if p['id'] == pid:
        break
wt = '/tmp/wt/%s' % wt_name
print(f"""You are helping to evaluate a verification effort by seeding realistic defects into a Python library.

The library is jmschrei/tangermeme (PyTorch genomics toolkit). You have your OWN scratch git worktree of it at {wt} .
Work ONLY inside {wt} . Do NOT read, list or use anything under /verif, and do not modify /repo. Run python as
`cd {wt} && PYTHONPATH={wt} /venv/bin/python ...` (check once that `import tangermeme; print(tangermeme.__file__)` points into {wt}).
The existing test-suite is run with `cd {wt} && OMP_NUM_THREADS=1 MKL_NUM_THREADS=1 PYTHONPATH={wt} /venv/bin/python -m pytest -q -p no:cacheprovider --timeout=900 -n 6 tests` (pytest-xdist is installed; keep OMP_NUM_THREADS=1 - the machine is shared and over-subscription makes the run take 10x longer; about 3-5 minutes;
9 tests fail on the pristine tree already: the 7 test_captum_* tests and 2 tests in tests/tools/test_cmd_tomtom.py -- ignore those, but no OTHER test may start failing; run the suite once on the pristine tree first to see the baseline).
There is no network. Do NOT use `git stash` (the stash is shared by all worktrees of this repository and other people work in sibling worktrees at the same time); to go back and forth use `git apply patch.diff` / `git apply -R patch.diff` or `git checkout -- .`.

Here is a semantic property of the library that users rely on:

  id: {p['id']}
  title: {p['title']}
  statement: {p['statement']}
  quantified over: {p['quantifier']['text']}
  code it is anchored in: {', '.join(p['anchors']['files'])}

TASK: produce {n} DIFFERENT source changes (mutants) to the library (files under {wt}/tangermeme only), each of which
  (a) BREAKS the property above (a user relying on the statement would get a wrong result, a missing/extra rejection, or a modified input),
  (b) still imports/compiles, and the existing test-suite still passes exactly as before (same known failures, nothing new),
  (c) looks like a plausible bug a maintainer could introduce in a refactor/optimisation/"fix" -- not sabotage, no dead code, no random/time-dependent behaviour,
  (d) needs something SPECIFIC to manifest: an unusual input or parameter combination, a boundary value, a particular sequence of calls, a particular
      thread count/batch size/ordering, a fault at a particular point, or two cooperating sites that each look fine alone.
      Changes that ordinary use (the README-style happy path with default arguments on a typical input) would expose at once are NOT wanted.
Make the {n} mutants differ in mechanism and in which part of the statement they break (different functions / clauses where the statement has several).
{"For this round use these three categories, one mutant each: (1) two cooperating sites - each edit looks fine alone, together they break the property; (2) a defect that only a particular SEQUENCE of calls / earlier state in the same process exposes; (3) a boundary value of a numeric or structural PARAMETER (not of the sequence content), e.g. an extreme but documented setting. Prefer subtle numerical or indexing consequences over crashes." if WAVE2 else ""}

For each mutant k = 1..{n} create the directory {wt}/MUTANTS/k/ containing:
  - patch.diff : output of `git diff` for exactly that mutant relative to the pristine worktree HEAD (apply-able with `git apply` at the repo root);
  - demo.py    : a small stand-alone program (no pytest needed) that exits 0 / prints PASS on the pristine tree and exits non-zero / prints FAIL with the
                 patch applied, demonstrating the property violation through the PUBLIC API; run as `PYTHONPATH={wt} /venv/bin/python demo.py`;
  - meta.json  : {{"property": "{p['id']}", "summary": "<one line>", "clause_broken": "<which part of the statement>",
                  "needs_to_manifest": "<what specific input/config/sequence is needed>", "files": [...],
                  "tests_run": "<the pytest command you ran with the patch and its pass/fail counts>"}}
After building each mutant: verify demo.py FAILS with the patch and PASSES without it, and run the test-suite with the patch applied
(running only the test files related to the files you touched is acceptable for iteration, but run the full suite at least once per mutant before finishing).
Then `git checkout -- .` (keeping the untracked MUTANTS directory) so the worktree is pristine again before the next mutant and at the end.
Finish with a short report: for each mutant, the one-line summary, what it needs to manifest, and the test counts you observed.""")

"""C18 - annotation and k-mer counting equal direct enumeration."""
import itertools

import numpy
import pandas
import torch
from hypothesis import strategies as st

from pbt.harness import Sub, Violation, SutRaised, Rejected, require, sut
from pbt import gen

from tangermeme.annotate import count_annotations, pairwise_annotations, pairwise_annotations_spacing
from tangermeme.kmers import kmers

PROPERTY = "C18"
LEVEL = "exploration"
RULE = ("cases = annotation tables (1-200 rows, 1-8 examples, 1-10 annotation ids; spans that abut, overlap, nest, coincide and sit "
        "max_distance-1 / max_distance / max_distance+1 apart), input form (tensor / tuple of Series|ndarray|tensor / DataFrame), "
        "explicit shape, symmetric flag, dtype - drawn by Hypothesis; k-mers: every sequence up to length 6 over alphabets 2-4 with "
        "k 1-4 (enumerated) and random longer ones with integer scores. Oracle = brute-force Python counting written from the "
        "statement. Non-trivial: >= 1 same-example pair (spacing: a pair that overlaps or has gap >= max_distance-1); k-mers: "
        "length > k. Distinct = SHA-1 of case JSON.")
ASSUMPTIONS = ["annotation spans have end > start", "expected counts fit the requested dtype (otherwise int64 is used)",
               "for pairwise_annotations_spacing only symmetric=True is compared (its non-symmetric orientation is not stated)"]

TD = {"uint8": torch.uint8, "int16": torch.int16, "int32": torch.int32, "int64": torch.int64, "float32": torch.float32, "int8": torch.int8}
TMAX = {"uint8": 255, "int8": 127, "int16": 32767, "int32": 2 ** 31 - 1, "int64": 2 ** 62, "float32": 2 ** 24}


def _snapshot(X):
    import copy
    if isinstance(X, torch.Tensor):
        return X.clone()
    if isinstance(X, pandas.DataFrame):
        return X.copy(deep=True)
    return [copy.deepcopy(x) if not isinstance(x, torch.Tensor) else x.clone() for x in X]


def _unchanged(X, keep):
    if isinstance(X, torch.Tensor):
        return torch.equal(X, keep)
    if isinstance(X, pandas.DataFrame):
        return X.equals(keep)
    def eq(a, b):
        if isinstance(a, torch.Tensor):
            return torch.equal(a, b)
        if isinstance(a, (pandas.Series, pandas.DataFrame)):
            return a.equals(b)
        return bool((numpy.asarray(a) == numpy.asarray(b)).all())
    return len(X) == len(keep) and all(eq(a, b) for a, b in zip(X, keep))


def _form2(rows, form):
    ex = [r[0] for r in rows]
    an = [r[1] for r in rows]
    if form == "tensor":
        return torch.tensor(rows, dtype=torch.int64).reshape(-1, 2)
    if form == "tensor32":
        return torch.tensor(rows, dtype=torch.int32).reshape(-1, 2)
    if form == "tuple_series":
        return (pandas.Series(ex, dtype="int64"), pandas.Series(an, dtype="int64"))
    if form == "tuple_numpy":
        return (numpy.array(ex, dtype=numpy.int64), numpy.array(an, dtype=numpy.int64))
    if form == "list_mixed":
        return [torch.tensor(ex, dtype=torch.int64), numpy.array(an, dtype=numpy.int64)]
    raise ValueError(form)


def count_case(case, ctx):
    rows = case["rows"]
    nE = max(r[0] for r in rows) + 1
    nA = max(r[1] for r in rows) + 1
    shape = case.get("shape")
    E, Am = (nE, nA) if shape is None else (shape[0], shape[1])
    want = [[0] * Am for _ in range(E)]
    for e, a in rows:
        want[e][a] += 1
    dim = case.get("dim")
    mx = max(max(sum(r) for r in want), max(sum(want[e][a] for e in range(E)) for a in range(Am)))
    dname = case["dtype"] if mx <= TMAX[case["dtype"]] else "int64"
    X = _form2(rows, case["form"])
    keep = _snapshot(X)
    kw = {} if shape is None else {"shape": tuple(shape)}
    if case.get("pairwise_first"):
        # the same table object was handed to pairwise_annotations before (typical pipeline: pairs first, then per-example counts)
        try:
            pairwise_annotations(X)
        except Exception:  # noqa: BLE001
            pass
        ctx.label("after_pairwise_on_same_table")
    y = sut(count_annotations, X, dtype=TD[dname], dim=dim, **kw)
    require(_unchanged(X, keep), "count-input-modified", "the caller's annotation table was changed")
    W = torch.tensor(want, dtype=torch.int64)
    if dim == 0:
        W = W.sum(dim=0)
    elif dim == 1:
        W = W.sum(dim=1)
    require(y.dtype == TD[dname], "count-dtype", lambda: str(y.dtype))
    require(tuple(y.shape) == tuple(W.shape) and torch.equal(y.to(torch.int64), W), "count-wrong",
            lambda: "rows=%r dim=%r shape=%r got %s want %s" % (rows[:12], dim, shape, y.tolist(), W.tolist()))
    ctx.nt(len(rows) >= 2)
    ctx.label("count_dim_%s" % dim, "form_" + case["form"])
    if shape is not None:
        ctx.label("explicit_shape")


def pair_case(case, ctx):
    rows = case["rows"]
    nA = max(r[1] for r in rows) + 1
    shape = case.get("shape")
    Am = nA if shape is None else shape
    sym = case["symmetric"]
    want = [[0] * Am for _ in range(Am)]
    npairs = 0
    for i in range(len(rows)):
        for j in range(i + 1, len(rows)):
            if rows[i][0] != rows[j][0]:
                continue
            npairs += 1
            a, b = rows[i][1], rows[j][1]
            want[a][b] += 1
            if sym and a != b:
                want[b][a] += 1
    mx = max(max(r) for r in want)
    dname = case["dtype"] if mx <= TMAX[case["dtype"]] else "int64"
    X = _form2(rows, case["form"])
    keep = _snapshot(X)
    kw = {} if shape is None else {"shape": shape}
    y = sut(pairwise_annotations, X, dtype=TD[dname], symmetric=sym, **kw)
    require(_unchanged(X, keep), "pairwise-input-modified", "the caller's annotation table was changed")
    W = torch.tensor(want, dtype=torch.int64)
    require(tuple(y.shape) == (Am, Am) and torch.equal(y.to(torch.int64), W), "pairwise-wrong",
            lambda: "rows=%r symmetric=%r got %s want %s" % (rows[:12], sym, y.tolist(), W.tolist()))
    if sym:
        require(torch.equal(y, y.T), "pairwise-not-symmetric", "")
    ctx.nt(npairs >= 1)
    ctx.label("pairwise_sym" if sym else "pairwise_ordered", "form_" + case["form"])


def _form4(rows, form):
    """rows = [example, annotation, start, end]"""
    t = torch.tensor(rows, dtype=torch.int64).reshape(-1, 4)
    if form == "tensor":
        return t
    if form == "dataframe":
        return pandas.DataFrame({"example_idx": t[:, 0].numpy(), "motif_idx": t[:, 1].numpy(), "start": t[:, 2].numpy(), "end": t[:, 3].numpy()})
    if form == "tuple_df_plus_idx":      # (seqlet table [example, start, end], annotation index) - the documented use
        df = pandas.DataFrame({"example_idx": t[:, 0].numpy(), "start": t[:, 2].numpy(), "end": t[:, 3].numpy()})
        return (df, t[:, 1].clone())
    if form == "tuple_arrays":
        return (t[:, 0].numpy().copy(), t[:, 2].numpy().copy(), t[:, 3].numpy().copy(), t[:, 1].numpy().copy())
    raise ValueError(form)


def spacing_case(case, ctx):
    rows = case["rows"]
    D = case["max_distance"]
    nA = max(r[1] for r in rows) + 1
    shape = case.get("shape")
    Am = nA if shape is None else shape
    want = {}
    npairs = nboundary = 0
    for i in range(len(rows)):
        for j in range(i + 1, len(rows)):
            if rows[i][0] != rows[j][0]:
                continue
            npairs += 1
            l, r = (rows[i], rows[j]) if rows[i][2] < rows[j][2] else (rows[j], rows[i])
            gap = r[2] - l[3]
            if gap < 0 or gap >= D - 1:
                nboundary += 1
            if 0 <= gap < D:
                a, b = l[1], r[1]
                want[(a, b, gap)] = want.get((a, b, gap), 0) + 1
                if a != b:
                    want[(b, a, gap)] = want.get((b, a, gap), 0) + 1
    mx = max(want.values()) if want else 0
    dname = case["dtype"] if mx <= TMAX[case["dtype"]] else "int64"
    X = _form4(rows, case["form"])
    keep = _snapshot(X)
    kw = {} if shape is None else {"shape": shape}
    y = sut(pairwise_annotations_spacing, X, max_distance=D, dtype=TD[dname], symmetric=True, **kw)
    require(_unchanged(X, keep), "spacing-input-modified", "the caller's annotation table was changed")
    require(tuple(y.shape) == (Am, Am, D), "spacing-shape", lambda: "%s want %s" % (tuple(y.shape), (Am, Am, D)))
    W = torch.zeros((Am, Am, D), dtype=torch.int64)
    for (a, b, g), v in want.items():
        W[a, b, g] = v
    if not torch.equal(y.to(torch.int64), W):
        bad = (y.to(torch.int64) != W).nonzero()[:4].tolist()
        raise Violation("spacing-wrong", "rows=%r max_distance=%d: entries %s got %s want %s" % (
            rows[:10], D, bad, [int(y[tuple(b)]) for b in bad], [int(W[tuple(b)]) for b in bad]))
    ctx.nt(npairs >= 1 and nboundary >= 1)
    ctx.label("form_" + case["form"])
    if nboundary:
        ctx.label("spacing_boundary_pair")
    if npairs:
        ctx.label("spacing_has_pair")


def kmer_case(case, ctx):
    A, seqs, k = case["A"], case["seqs"], case["k"]
    alpha = list(gen.LETTERS[:A])
    L = len(seqs[0])
    X = gen.encode_batch(seqs, alpha, gen.DTYPES[case.get("dtype", "int8")])
    Xc = X.clone()
    sc = case.get("scores")
    scores = None if sc is None else torch.tensor(sc, dtype=torch.int64)
    y = sut(kmers, X, k, scores=scores)
    require(torch.equal(X, Xc), "kmers-input-modified", "")
    require(tuple(y.shape) == (len(seqs), A ** k), "kmers-shape", lambda: str(tuple(y.shape)))
    W = torch.zeros((len(seqs), A ** k), dtype=torch.float64)
    for b, s in enumerate(seqs):
        for p in range(L - k + 1):
            idx = sum(alpha.index(s[p + j]) * A ** j for j in range(k))
            W[b, idx] += 1 if sc is None else sum(sc[b][p:p + k])
    require(torch.equal(y.to(torch.float64), W), "kmers-wrong",
            lambda: "seqs=%r k=%d scores=%r: got nonzero %s want %s" % (seqs[:2], k, sc, y.nonzero().tolist()[:8], W.nonzero().tolist()[:8]))
    ctx.nt(L > k)
    ctx.label("kmers_scored" if sc is not None else "kmers_counts", "k=%d" % k)


# ------------------------------------------------------------------ strategies
@st.composite
def table2(draw):
    nE = draw(st.integers(1, 8))
    nA = draw(st.integers(1, 10))
    n = draw(st.one_of(st.integers(1, 12), st.integers(1, 200)))
    gap = draw(st.sampled_from([1, 1, 2, 3]))          # example ids with gaps: some examples have no annotation at all
    rows = [[draw(st.integers(0, nE - 1)) * gap, draw(st.integers(0, nA - 1))] for _ in range(n)]
    return rows


@st.composite
def count_strategy(draw):
    rows = draw(table2())
    case = {"rows": rows, "dim": draw(st.sampled_from([None, 0, 1])), "pairwise_first": draw(st.integers(0, 3)) == 0,
            "dtype": draw(st.sampled_from(["uint8", "int16", "int32", "int64", "float32"])),
            "form": draw(st.sampled_from(["tensor", "tensor32", "tuple_series", "tuple_numpy", "list_mixed"]))}
    if draw(st.booleans()):
        case["shape"] = [max(r[0] for r in rows) + 1 + draw(st.integers(0, 3)), max(r[1] for r in rows) + 1 + draw(st.integers(0, 3))]
    return case


@st.composite
def pair_strategy(draw):
    rows = draw(table2())
    case = {"rows": rows, "symmetric": draw(st.booleans()), "dtype": draw(st.sampled_from(["uint8", "int16", "int64", "int32"])),
            "form": draw(st.sampled_from(["tensor", "tuple_series", "tuple_numpy", "list_mixed"]))}
    if draw(st.booleans()):
        case["shape"] = max(r[1] for r in rows) + 1 + draw(st.integers(0, 3))
    return case


@st.composite
def spacing_strategy(draw):
    nE = draw(st.integers(1, 6))
    nA = draw(st.integers(1, 8))
    D = draw(st.sampled_from([1, 2, 3, 5, 10, 25, 100]))
    n = draw(st.one_of(st.integers(1, 10), st.integers(1, 120)))
    rows = []
    for _ in range(n):
        e = draw(st.integers(0, nE - 1))
        same = [r for r in rows if r[0] == e]
        mode = draw(st.integers(0, 7)) if same else 0
        w = draw(st.integers(1, 12))
        if mode == 0:
            start = draw(st.integers(0, 3 * D + 40))
        else:
            ref = same[draw(st.integers(0, len(same) - 1))]
            if mode == 1:      # abut
                start = ref[3]
            elif mode == 2:    # overlap
                start = max(0, ref[3] - draw(st.integers(1, max(1, ref[3] - ref[2]))))
            elif mode == 3:    # nested / coincide
                start = ref[2]
                w = draw(st.integers(1, ref[3] - ref[2]))
            elif mode == 4:    # exactly max_distance-1 after
                start = ref[3] + D - 1
            elif mode == 5:    # exactly max_distance after
                start = ref[3] + D
            elif mode == 6:    # max_distance+1 after
                start = ref[3] + D + 1
            else:              # before it, at a boundary distance
                start = max(0, ref[2] - w - draw(st.sampled_from([0, D - 1, D, D + 1])))
        rows.append([e, draw(st.integers(0, nA - 1)), start, start + w])
    case = {"rows": rows, "max_distance": D, "dtype": draw(st.sampled_from(["uint8", "int16", "int64"])),
            "form": draw(st.sampled_from(["tensor", "dataframe", "tuple_df_plus_idx", "tuple_arrays"]))}
    if draw(st.integers(0, 3)) == 0:
        case["shape"] = max(r[1] for r in rows) + 1 + draw(st.integers(0, 2))
    return case


@st.composite
def kmer_strategy(draw):
    A = draw(st.integers(2, 4))
    k = draw(st.integers(1, 4))
    B = draw(st.integers(1, 3))
    L = draw(st.integers(k, 40))
    alpha = gen.LETTERS[:A]
    seqs = [draw(st.text(alphabet=alpha, min_size=L, max_size=L)) for _ in range(B)]
    case = {"A": A, "k": k, "seqs": seqs, "dtype": draw(st.sampled_from(["int8", "float32", "int64"]))}
    if draw(st.booleans()):
        case["scores"] = [[draw(st.integers(-20, 20)) for _ in range(L)] for _ in range(B)]
    return case


def kmer_enum(tier):
    cases = []
    for A in (2, 3, 4):
        alpha = gen.LETTERS[:A]
        for L in range(1, 7):
            if A == 4 and L == 6 and tier == "quick":
                continue
            allseq = ["".join(t) for t in itertools.product(alpha, repeat=L)]
            for k in range(1, min(4, L) + 1):
                for c in range(0, len(allseq), 128):
                    cases.append({"A": A, "k": k, "seqs": allseq[c:c + 128]})
    return cases


def subchecks(tier):
    return [
        Sub("count_annotations", count_case, strategy=count_strategy, n_quick=1500, n_thorough=40000),
        Sub("pairwise_annotations", pair_case, strategy=pair_strategy, n_quick=1200, n_thorough=30000),
        Sub("pairwise_spacing", spacing_case, strategy=spacing_strategy, n_quick=1500, n_thorough=40000, shards_quick=2),
        Sub("kmers_random", kmer_case, strategy=kmer_strategy, n_quick=1500, n_thorough=30000),
        Sub("kmers_exhaustive", kmer_case, enum=kmer_enum, exhaustive=True, shards_quick=1, shards_thorough=4,
            desc="every sequence of length 1..6 over alphabets of size 2-4 (4^6 only in thorough) x every k in 1..min(4, L), in batches of 128"),
    ]

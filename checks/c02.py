"""C02 - shuffles preserve composition (mono-/di-nucleotide), flanks and determinism; the
dinucleotide walk can never be stranded by any outcome of its internal permutations."""
import itertools
import types
from collections import Counter

import numpy
import torch
from hypothesis import strategies as st

from pbt.harness import Sub, Violation, Rejected, SutRaised, require, sut
from pbt import gen

from tangermeme import ersatz
from tangermeme.ersatz import shuffle, dinucleotide_shuffle

PROPERTY = "C02"
LEVEL = "exploration"
RULE = ("cases = (alphabet 2-4, batch of sequences, region [start,end) incl. defaults, n, integer seed) drawn by Hypothesis, "
        "plus every sequence up to length 7 (quick) / 8 (thorough) over alphabets of size 2-4, plus - sub-check walk_outcomes - for "
        "every such short sequence EVERY outcome of the walk's internal permutations (the random source of "
        "_fast_shuffle.py_func is replaced by an enumerating one). Oracle = character Counter / ordered-pair Counter of the "
        "region, flanks identical, one 1 per column, input unchanged, same seed => same output. Non-trivial: region has >= 2 "
        "distinct characters and length >= 3; for walk_outcomes some character has >= 3 outgoing transitions (>= 2 outcomes).")
ASSUMPTIONS = ["the walk draws randomness only through numpy.random.permutation (else walk_outcomes reports itself unavailable)",
               "an exception from dinucleotide_shuffle is a permitted rejection ('whenever it returns at all')"]


def _pairs(s):
    return Counter(zip(s[:-1], s[1:]))


def shuffle_case(case, ctx):
    A = case["A"]
    alpha = list(gen.LETTERS[:A])
    seqs = case["seqs"]
    B, L = len(seqs), len(seqs[0])
    X = gen.encode_batch(seqs, alpha, gen.DTYPES[case.get("dtype", "int8")])
    Xc = X.clone()
    n, seed = case["n"], case["seed"]
    stype = case.get("seed_type", "int")
    if stype == "np_int32" and seed >= 2 ** 31:
        stype = "np_int64"
    seed = {"int": int, "np_int64": numpy.int64, "np_int32": numpy.int32}[stype](seed)
    kind = case["kind"]
    kw = {}
    if case["start"] is not None:
        kw["start"] = case["start"]
    if case["end"] is not None:
        kw["end"] = case["end"]
    a = case["start"] if case["start"] is not None else 0
    e_ = case["end"]
    # a negative end counts from the end of the sequence: shuffle documents L + 1 + end; dinucleotide_shuffle slices Python-style
    # (L + end).  [a, L + 1 + end) contains both readings, and a dinucleotide shuffle of the shorter one is one of the longer one too.
    b_neg = None if (e_ is None or e_ >= 0) else L + 1 + e_
    if case.get("pre_failing_call") and kind == "dinuc" and n >= 2:
        # an earlier call on a batch of the same shape that the function refuses ("all shuffles identical") and the caller catches
        Xh = gen.encode_batch(["A" * L for _ in seqs], alpha, X.dtype)
        Xh[:, :, -1] = 0
        Xh[:, 1, -1] = 1
        try:
            dinucleotide_shuffle(Xh, n=n, random_state=seed, **kw)
        except Exception:  # noqa: BLE001
            ctx.label("after_refused_call_of_same_shape")
    if kind == "shuffle":
        b = (e_ if e_ >= 0 else b_neg) if e_ is not None else L
        Y = sut(shuffle, X, n=n, random_state=seed, **kw)
        Y2 = sut(shuffle, X, n=n, random_state=seed, **kw)
    else:
        # default end=-1: only [a, L) is constrained (holds for either reading of -1)
        b = (e_ if e_ >= 0 else b_neg) if e_ is not None else L
        try:
            Y = dinucleotide_shuffle(X, n=n, random_state=seed, **kw)
            Y2 = dinucleotide_shuffle(X, n=n, random_state=seed, **kw)
        except Exception as e:  # noqa: BLE001 - statement: "whenever it returns at all"
            require(torch.equal(X, Xc), kind + "-input-modified", "input changed by a failing call")
            # a single shuffle (n == 1) of a valid region of >= 3 positions always exists (the input itself is one): the only
            # documented refusals are "all n > 1 shuffles identical" and invalid input, so a refusal here is a wrong rejection
            sut_len = (b - a) if (case["end"] is not None and case["end"] >= 0) else (b - 1 - a)   # negative ends are sliced Python-style
            if n == 1 and sut_len >= 3:
                raise Violation("dinuc-valid-region-rejected", "seqs=%r region=[%d,%d) end arg=%r: %s: %s" % (
                    [s_[:40] for s_ in seqs], a, b, case["end"], type(e).__name__, str(e)[:200]))
            raise Rejected() from e
    require(torch.equal(X, Xc), kind + "-input-modified", "")
    require(tuple(Y.shape) == (B, n, A, L), kind + "-shape", lambda: str(tuple(Y.shape)))
    require(torch.equal(Y, Y2), kind + "-not-deterministic", lambda: "seed %d gave two different results" % seed)
    for i in range(B):
        s = seqs[i]
        for j in range(n):
            t = gen.decode_strict(Y[i, j], alpha)
            require(t is not None, kind + "-not-one-hot", lambda: "seq=%r region=[%d,%d) out=%s" % (s, a, b, Y[i, j].tolist()))
            require(t[:a] == s[:a] and t[b:] == s[b:], kind + "-flank-changed",
                    lambda: "seq=%r region=[%d,%d) out=%r" % (s, a, b, t))
            if kind == "shuffle":
                require(Counter(t[a:b]) == Counter(s[a:b]), "shuffle-composition",
                        lambda: "seq=%r region=[%d,%d) out=%r" % (s, a, b, t))
            else:
                require(_pairs(t[a:b]) == _pairs(s[a:b]) and t[a] == s[a] and t[b - 1] == s[b - 1], "dinuc-composition",
                        lambda: "seq=%r region=[%d,%d) out=%r" % (s, a, b, t))
    ctx.nt(any(len(set(s[a:b])) >= 2 and b - a >= 3 for s in seqs))
    ctx.label(kind)
    if case["end"] is None:
        ctx.label(kind + "_default_end")
    if any(Y[i, j].ne(X[i]).any() for i in range(B) for j in range(n)):
        ctx.label(kind + "_changed_something")


def _strategy(kind, maxL):
    @st.composite
    def f(draw):
        A = draw(st.integers(2, 4))
        alpha = gen.LETTERS[:A]
        B = draw(st.integers(1, 3))
        L = draw(st.integers(3 if kind == "dinuc" else 2, maxL))
        seqs = [draw(st.text(alphabet=alpha, min_size=L, max_size=L)) for _ in range(B)]
        if draw(st.integers(0, 3)) == 0:
            start, end = None, None
        else:
            minlen = 3 if kind == "dinuc" else 1
            start = draw(st.integers(0, L - minlen))
            end = draw(st.integers(start + minlen, L))
            if draw(st.integers(0, 4)) == 0:
                end = None
            elif draw(st.integers(0, 5)) == 0 and end < L:
                end = end - L - 1          # the same region written as a negative end (L + 1 + end convention of shuffle)
        n = draw(st.integers(1, 5))
        if kind == "dinuc":
            a_, b_ = (start or 0), (end if end is not None else L - 1)
            # few distinct dinucleotide shuffles exist for short / low-complexity regions; the SUT then refuses n > 1
            if b_ - a_ < 10 or any(len(set(s[a_:b_])) < 3 for s in seqs):
                n = 1
        return {"A": A, "seqs": seqs, "kind": kind, "start": start, "end": end, "n": n,
                "seed_type": draw(st.sampled_from(["int", "int", "np_int64", "np_int32"])),
                "seed": draw(st.one_of(st.integers(0, 2 ** 31 - 10), st.integers(2 ** 31 - 2, 2 ** 32 - 10))),   # the whole numpy seed range
                "dtype": draw(st.sampled_from(["int8", "float32", "int64"])),
                "pre_failing_call": draw(st.integers(0, 2)) == 0}
    return f()


@st.composite
def long_strategy(draw):
    """Few, long sequences: index types narrower than the sequence (int16, uint8 ...) only show beyond their range."""
    A = draw(st.integers(2, 4))
    alpha = gen.LETTERS[:A]
    L = draw(st.sampled_from([300, 5000, 33000, 40000, 70000]))
    seed0 = draw(st.integers(0, 10 ** 6))
    # the sequence itself is a deterministic function of generated values (cheap to replay, tiny case JSON)
    import random as _random
    rng = _random.Random(seed0)
    seq = "".join(rng.choice(alpha) for _ in range(L))
    kind = draw(st.sampled_from(["dinuc", "dinuc", "shuffle"]))
    whole = draw(st.booleans())
    start = None if whole else draw(st.integers(0, 50))
    end = None if whole else L - draw(st.integers(0, 50))
    return {"A": A, "seqs": [seq], "kind": kind, "start": start, "end": end, "n": draw(st.integers(1, 2)),
            "seed": draw(st.integers(0, 2 ** 31 - 10)), "dtype": "int8", "seed_type": "int"}


def small_enum(tier):
    cases = []
    top = 7 if tier == "quick" else 8
    for A in (2, 3, 4):
        alpha = gen.LETTERS[:A]
        for L in range(3, top + 1):
            if A == 4 and L > (6 if tier == "quick" else 8):
                continue
            allseq = ["".join(t) for t in itertools.product(alpha, repeat=L)]
            # batches of 64 sequences: the batch axis carries the enumeration
            for k in range(0, len(allseq), 64):
                for kind in ("shuffle", "dinuc"):
                    cases.append({"A": A, "seqs": allseq[k:k + 64], "kind": kind, "start": None, "end": L if kind == "dinuc" else None,
                                  "n": 2 if kind == "shuffle" else 1, "seed": 1000 + k + L, "dtype": "int8"})
    return cases


# ------------------------------------------------------------------ enumerated walk outcomes
class _EnumRandom:
    def __init__(self, choices):
        self.choices = list(choices)

    def seed(self, s):
        pass

    def permutation(self, n):
        if n <= 0:
            return numpy.arange(0)
        if n == 1:
            return numpy.arange(1)
        if not self.choices:
            raise _ProxyMismatch("permutation(%d) requested, enumerator has none left" % n)
        p = self.choices.pop(0)
        if len(p) != n:
            raise _ProxyMismatch("permutation(%d) requested, enumerator prepared %d" % (n, len(p)))
        return numpy.array(p)


class _ProxyMismatch(Exception):
    pass


class _FakeNumpy:
    def __init__(self, rnd):
        self.random = rnd

    def __getattr__(self, k):
        return getattr(numpy, k)


def walk_case(case, ctx):
    A, seq = case["A"], case["seq"]
    alpha = list(gen.LETTERS[:A])
    s = "".join(alpha[c] for c in seq)
    X = gen.encode(s, alpha, torch.int8)
    counts = [sum(1 for x in seq[:-1] if x == c) for c in range(A)]
    cap = case.get("cap", 0)
    if not cap:
        spaces = [list(itertools.permutations(range(c - 1))) if c - 1 >= 2 else [None] for c in counts]
    else:
        # too many outcomes to enumerate: identity, reversal and pseudo-random permutations derived from a generated seed
        import random as _random
        rng = _random.Random(case.get("perm_seed", 0))
        spaces = []
        for c in counts:
            if c - 1 < 2:
                spaces.append([None])
                continue
            base = list(range(c - 1))
            sp = {tuple(base), tuple(reversed(base))}
            for _ in range(6):
                q = base[:]
                rng.shuffle(q)
                sp.add(tuple(q))
            spaces.append(sorted(sp))
    pf = getattr(ersatz._fast_shuffle, "py_func", None)
    if pf is None:
        ctx.label("walk_enum_unavailable")
        return
    n_out = 0
    want = _pairs(s)
    orig = ersatz._fast_shuffle
    try:
        for combo in (itertools.islice(itertools.product(*spaces), cap) if cap else itertools.product(*spaces)):
            perms = [list(p) for p in combo if p is not None]
            rnd = _EnumRandom(perms)
            g = dict(pf.__globals__)
            g["numpy"] = _FakeNumpy(rnd)
            ersatz._fast_shuffle = types.FunctionType(pf.__code__, g)
            try:
                out = ersatz._dinucleotide_shuffle(X, n_shuffles=1, random_state=0)
            except (_ProxyMismatch, AttributeError):
                ctx.label("walk_enum_unavailable")
                return
            except Exception as e:  # noqa: BLE001
                raise Violation("walk-raised", "seq=%r perms=%r: %s: %s" % (s, perms, type(e).__name__, e))
            if rnd.choices:
                ctx.label("walk_enum_unavailable")
                return
            n_out += 1
            t = gen.decode_strict(out[0], alpha)
            require(t is not None, "walk-stranded", lambda: "seq=%r perms=%r columns=%s" % (s, perms, out[0].sum(0).tolist()))
            require(_pairs(t) == want and t[0] == s[0] and t[-1] == s[-1], "walk-dinuc-composition",
                    lambda: "seq=%r perms=%r out=%r" % (s, perms, t))
    finally:
        ersatz._fast_shuffle = orig
    ctx.extra["inner"] = n_out
    ctx.nt(n_out >= 2)
    ctx.label("outcomes>=2" if n_out >= 2 else "outcomes=1")


def walk_enum(tier):
    cases = []
    for A, top in ((2, 9), (3, 7), (4, 6)) if tier == "quick" else ((2, 11), (3, 9), (4, 8)):
        for L in range(3, top + 1):
            for seq in itertools.product(range(A), repeat=L):
                cases.append({"A": A, "seq": list(seq)})
    return cases


@st.composite
def walk_strategy(draw):
    A = draw(st.integers(2, 4))
    L = draw(st.integers(8, 30))
    return {"A": A, "seq": [draw(st.integers(0, A - 1)) for _ in range(L)], "cap": 400, "perm_seed": draw(st.integers(0, 10 ** 6))}


def subchecks(tier):
    return [
        Sub("shuffle_random", shuffle_case, strategy=lambda: _strategy("shuffle", 60), n_quick=6000, n_thorough=100000, shards_quick=2),
        Sub("dinuc_random", shuffle_case, strategy=lambda: _strategy("dinuc", 60), n_quick=6000, n_thorough=100000, shards_quick=2),
        Sub("long_sequences", shuffle_case, strategy=long_strategy, n_quick=12, n_thorough=300, shards_quick=1, shards_thorough=8),
        Sub("small_scope", shuffle_case, enum=small_enum, exhaustive=True, shards_quick=2, shards_thorough=8,
            desc="every sequence of length 3..7 (A=2,3; A=4 to 6) in quick, 3..8 in thorough, as batches of 64, n=2, shuffle and dinucleotide_shuffle"),
        Sub("walk_outcomes", walk_case, enum=walk_enum, exhaustive=True, shards_quick=4, shards_thorough=16,
            desc="for every sequence (A=2 L<=9, A=3 L<=7, A=4 L<=6 quick; A=2 L<=11, A=3 L<=9, A=4 L<=8 thorough) every combination of "
                 "permutations the walk can draw is enumerated through _fast_shuffle.py_func with an enumerating random source"),
        Sub("walk_outcomes_longer", walk_case, strategy=walk_strategy, n_quick=500, n_thorough=8000, shards_quick=1),
    ]

import numpy, torch, collections, os
from tangermeme.seqlet import recursive_seqlets, tfmodisco_seqlets
rs = numpy.random.RandomState(int(os.environ.get("S","0")))
stats = collections.Counter()
def track(n, L, nb):
    X = numpy.round(rs.randn(n, L)*0.1*64)/64
    for _ in range(nb):
        i = rs.randint(n); w = rs.randint(4, 15); p = rs.choice([0,1,2,rs.randint(0,L-w), L-w, L-w-1]); sgn = rs.choice([-1,1])
        X[i, p:p+w] += sgn*numpy.round(rs.uniform(1,3,size=w)*64)/64
    return X
for trial in range(150):
    n, L = rs.randint(1,5), rs.randint(60, 400)
    X = track(n, L, rs.randint(0, 8))
    thr = float(rs.choice([0.001,0.01,0.05,0.2])); mn = rs.randint(3,8); mx = mn + rs.randint(2, 20); fl = rs.randint(0,5)
    Xc = X.copy()
    try:
        s0 = recursive_seqlets(torch.from_numpy(X), threshold=thr, min_seqlet_len=mn, max_seqlet_len=mx, additional_flanks=0)
        s = recursive_seqlets(torch.from_numpy(X), threshold=thr, min_seqlet_len=mn, max_seqlet_len=mx, additional_flanks=fl)
    except Exception as e:
        stats["rec EXC "+type(e).__name__]+=1; continue
    if not numpy.array_equal(X, Xc): stats["input modified"]+=1
    stats["rec trials"]+=1; stats["rec seqlets"]+=len(s0)
    for r in s0.itertuples():
        ln = r.end-r.start
        if not (mn <= ln <= mx): stats[f"len out of range {ln} not in [{mn},{mx}]"]+=1
        if not (0 <= r.start < r.end <= L): stats["span outside"]+=1
        if r._5 > thr: stats["p above thr"]+=1
        if abs(r.attribution - X[r.example_idx, r.start:r.end].sum()) > 1e-9: stats["attr mismatch f0"]+=1
    if list(s0['p-value']) != sorted(s0['p-value']): stats["unsorted"]+=1
    exp = sorted((r.example_idx, max(r.start-fl,0), min(r.end+fl, L)) for r in s0.itertuples())
    gotf = sorted((r.example_idx, r.start, r.end) for r in s.itertuples())
    if exp != gotf: stats["flank metamorphic mismatch"]+=1
    for r in s.itertuples():
        if abs(r.attribution - X[r.example_idx, r.start:r.end].sum()) > 1e-9:
            stats["attr mismatch with flanks (start=%s)" % ("0" if r.start==0 else ">0")]+=1
for trial in range(60):
    n, L = rs.randint(1,5), rs.randint(100, 500)
    X = torch.from_numpy(track(n, L, rs.randint(2, 10))).float()
    w = int(rs.choice([5,9,15,21])); fl = int(rs.choice([0,3,10])); Xc = X.clone()
    try:
        s = tfmodisco_seqlets(X, window_size=w, flank=fl)
    except Exception as e:
        stats["tfm EXC "+type(e).__name__+" "+str(e)[:50]]+=1; continue
    stats["tfm trials"]+=1; stats["tfm seqlets"]+=len(s)
    if not torch.equal(X, Xc): stats["tfm input modified"]+=1
    sup = int(0.5*w)+fl
    for r in s.itertuples():
        if r.end-r.start != w+2*fl or r.start<0 or r.end>L: stats["tfm bad span"]+=1
        if abs(r.attribution - X[r.example_idx, r.start+fl:r.end-fl].sum().item()) > 1e-4: stats["tfm attr mismatch"]+=1
    for e, g in s.groupby('example_idx'):
        st = sorted(g.start)
        if any(b-a < sup for a,b in zip(st, st[1:])): stats["tfm starts too close"]+=1
for k,v in sorted(stats.items()): print(v,k)
